#!/bin/bash
# Runs the repository's own test suite with every verification hook OFF (plain go test, no overlay, no tags)
# and compares the set of passing tests with the 252 stable tests of /root/.vp/BASELINE.json.
# usage: baseline_off.sh [repo-dir]   (default /repo)   exit 0 = every stable test passed
REPO="${1:-/repo}"
export GOFLAGS=-mod=mod GOPROXY=off GOSUMDB=off GOTOOLCHAIN=local
GO=go1.26
OUT=$(mktemp -p /dev/shm baseline.XXXXXX.json)
trap 'rm -f "$OUT"' EXIT
(cd "$REPO" && $GO test -json -vet=off -count=1 -timeout 25m ./... > "$OUT" 2>/dev/null)
python3 - "$OUT" <<'PY'
import json,sys
passed,failed=set(),set()
for line in open(sys.argv[1],errors='replace'):
    line=line.strip()
    if not line.startswith('{'): continue
    try: ev=json.loads(line)
    except Exception: continue
    a=ev.get('Action'); t=ev.get('Test'); p=ev.get('Package','')
    if t is None or a not in('pass','fail'): continue
    (passed if a=='pass' else failed).add(p+'::'+t)
passed-=failed
base=set(json.load(open('/root/.vp/BASELINE.json'))['stable_pass'])
missing=sorted(base-passed)
print(f"baseline: stable={len(base)} passed_now={len(passed)} failed_now={len(failed)} stable_missing={len(missing)}")
for m in missing[:40]: print("  MISSING",m)
sys.exit(1 if missing else 0)
PY
