// Package sched is Engine B: a cooperative scheduler that owns every interleaving of a small multi-goroutine
// harness, and a stateless DFS with iterative preemption bounding over its choice sequences.
//
// Threads are goroutines that run one at a time. Every hooked operation (mutex lock/unlock of the vsync shim,
// explicit Point() calls in fetch callbacks and in the device's ReadAt) hands control back to the scheduler,
// which picks the next thread according to the choice sequence being explored.
package sched

import (
	"fmt"
	"runtime/debug"
	"strings"

	"github.com/diskfs/go-diskfs/verifhook/vsync"
)

type event struct {
	kind  int // 0 yield, 1 blocked, 2 done, 3 panic
	panic string
}

type thread struct {
	id      int
	run     chan struct{}
	done    bool
	blocked *vsync.Mutex
	wblock  *vsync.RWMutex
	rblock  *vsync.RWMutex
	fn      func()
	steps   int
}

// PointInfo records one scheduling decision.
type PointInfo struct {
	Enabled             []int // thread ids in canonical order (running thread first if still enabled)
	Chosen              int   // index into Enabled
	RunningStillEnabled bool
}

type Exec struct {
	Points     []PointInfo
	Choices    []int
	Deadlock   bool
	Livelock   bool
	Panic      string
	Steps      int
	Unfinished []int
	// FinishOrder lists the thread ids in the order in which they completed (an observable outcome of the schedule).
	FinishOrder string
}

type Sched struct {
	threads []*thread
	cur     int
	back    chan event
	maxStep int
}

var active *Sched

// Point is a scheduling point callable from harness code (fetch callbacks, device reads).
func Point() {
	s := active
	if s == nil || s.cur < 0 {
		return
	}
	s.yield(event{kind: 0})
}

func (s *Sched) yield(e event) {
	t := s.threads[s.cur]
	s.back <- e
	<-t.run
}

// ---- vsync.Hook ----

func (s *Sched) Lock(m *vsync.Mutex) {
	if s.cur < 0 {
		m.Owner = -1
		return
	}
	t := s.threads[s.cur]
	s.yield(event{kind: 0})
	for m.Owner != 0 {
		t.blocked = m
		s.yield(event{kind: 1})
	}
	t.blocked = nil
	m.Owner = t.id + 1
}

func (s *Sched) Unlock(m *vsync.Mutex) {
	if m.Owner == 0 {
		panic("sync: unlock of unlocked mutex")
	}
	m.Owner = 0
	if s.cur >= 0 {
		s.yield(event{kind: 0})
	}
}

func (s *Sched) WLock(m *vsync.RWMutex) {
	if s.cur < 0 {
		m.Writer = -1
		return
	}
	t := s.threads[s.cur]
	s.yield(event{kind: 0})
	for m.Writer != 0 || m.Readers != 0 {
		t.wblock = m
		s.yield(event{kind: 1})
	}
	t.wblock = nil
	m.Writer = t.id + 1
}
func (s *Sched) WUnlock(m *vsync.RWMutex) {
	m.Writer = 0
	if s.cur >= 0 {
		s.yield(event{kind: 0})
	}
}
func (s *Sched) RLock(m *vsync.RWMutex) {
	if s.cur < 0 {
		m.Readers++
		return
	}
	t := s.threads[s.cur]
	s.yield(event{kind: 0})
	for m.Writer != 0 {
		t.rblock = m
		s.yield(event{kind: 1})
	}
	t.rblock = nil
	m.Readers++
}
func (s *Sched) RUnlock(m *vsync.RWMutex) {
	m.Readers--
	if s.cur >= 0 {
		s.yield(event{kind: 0})
	}
}

func (t *thread) enabled() bool {
	if t.done {
		return false
	}
	if t.blocked != nil && t.blocked.Owner != 0 {
		return false
	}
	if t.wblock != nil && (t.wblock.Writer != 0 || t.wblock.Readers != 0) {
		return false
	}
	if t.rblock != nil && t.rblock.Writer != 0 {
		return false
	}
	return true
}

// Run executes the thread bodies under the choice prefix (choice 0 after the prefix) and returns the recorded
// execution. bodies must create all shared state themselves before Run (setup) or inside (then it is per-execution).
func Run(bodies []func(), prefix []int, maxSteps int) *Exec {
	s := &Sched{back: make(chan event), cur: -1, maxStep: maxSteps}
	x := &Exec{}
	for i, b := range bodies {
		t := &thread{id: i, run: make(chan struct{}), fn: b}
		s.threads = append(s.threads, t)
	}
	active = s
	vsync.H = s
	defer func() {
		vsync.H = nil
		active = nil
	}()
	for _, t := range s.threads {
		t := t
		go func() {
			<-t.run
			defer func() {
				if r := recover(); r != nil {
					st := string(debug.Stack())
					site := ""
					for _, ln := range strings.Split(st, "\n") {
						if strings.Contains(ln, "go-diskfs/filesystem") && strings.Contains(ln, "(") {
							site = strings.TrimSpace(ln)
							if i := strings.LastIndex(site, "("); i > 0 {
								site = site[:i]
							}
							site = site[strings.LastIndex(site, "/")+1:]
							break
						}
					}
					s.back <- event{kind: 3, panic: fmt.Sprintf("%v @%s", r, site)}
					return
				}
				s.back <- event{kind: 2}
			}()
			t.fn()
		}()
	}
	running := -1
	pos := 0
	for {
		var en []int
		if running >= 0 && s.threads[running].enabled() {
			en = append(en, running)
		}
		for _, t := range s.threads {
			if t.id != running && t.enabled() {
				en = append(en, t.id)
			}
		}
		if len(en) == 0 {
			for _, t := range s.threads {
				if !t.done {
					x.Unfinished = append(x.Unfinished, t.id)
				}
			}
			x.Deadlock = len(x.Unfinished) > 0
			break
		}
		choice := 0
		if pos < len(prefix) {
			choice = prefix[pos]
			if choice >= len(en) {
				panic(fmt.Sprintf("sched: replay diverged: choice %d at point %d but only %d threads enabled", choice, pos, len(en)))
			}
		}
		pos++
		x.Points = append(x.Points, PointInfo{Enabled: en, Chosen: choice, RunningStillEnabled: running >= 0 && len(en) > 0 && en[0] == running})
		x.Choices = append(x.Choices, choice)
		running = en[choice]
		s.cur = running
		t := s.threads[running]
		t.steps++
		x.Steps++
		if x.Steps > maxSteps {
			x.Livelock = true
			// unfinished threads stay parked; they are abandoned (goroutines leak only in this failure case)
			break
		}
		t.run <- struct{}{}
		e := <-s.back
		s.cur = -1
		switch e.kind {
		case 2:
			t.done = true
			x.FinishOrder += fmt.Sprint(t.id) + ","
		case 3:
			t.done = true
			x.Panic = e.panic
			// a panic while other threads hold or wait for locks: stop this execution
			for _, o := range s.threads {
				if !o.done {
					x.Unfinished = append(x.Unfinished, o.id)
				}
			}
			return x
		}
	}
	return x
}

// Explorer: DFS over choice sequences with a preemption bound.
type Explorer struct {
	Bound      int
	MaxSteps   int
	Executions int64
	MaxPoints  int
	Stop       func() bool
	Capped     bool
}

// Explore calls mk() to obtain fresh thread bodies for every execution and check(x) after each one.
func (e *Explorer) Explore(mk func() []func(), check func(x *Exec)) {
	var rec func(prefix []int)
	rec = func(prefix []int) {
		if e.Capped || (e.Stop != nil && e.Executions%256 == 0 && e.Stop()) {
			e.Capped = true
			return
		}
		x := Run(mk(), prefix, e.MaxSteps)
		e.Executions++
		if len(x.Points) > e.MaxPoints {
			e.MaxPoints = len(x.Points)
		}
		check(x)
		// preemptions used before point i
		pre := 0
		cum := make([]int, len(x.Points)+1)
		for i, p := range x.Points {
			cum[i] = pre
			if p.RunningStillEnabled && p.Chosen != 0 {
				pre++
			}
		}
		for i := len(prefix); i < len(x.Points); i++ {
			p := x.Points[i]
			for alt := 1; alt < len(p.Enabled); alt++ {
				cost := cum[i]
				if p.RunningStillEnabled {
					cost++
				}
				if cost > e.Bound {
					continue
				}
				np := append(append([]int{}, x.Choices[:i]...), alt)
				rec(np)
			}
		}
	}
	rec(nil)
}
