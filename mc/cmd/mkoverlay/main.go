// mkoverlay generates the `go build -overlay` description that injects the verification hooks into the
// go-diskfs sources AS THEY CURRENTLY ARE in -repo, without modifying them:
//
//   - every time.Now() call in a non-test file becomes vtime.Now() (virtual package <module>/verifhook/vtime);
//   - in filesystem/squashfs the import "sync" is redirected to <module>/verifhook/vsync;
//   - in-package export files hook/_src/export/<pkg path with _>.go are added as zz_verif_export.go.
//
// It imports nothing from the repository, so it can always be built.
package main

import (
	"bytes"
	"encoding/json"
	"flag"
	"fmt"
	"go/ast"
	"go/parser"
	"go/printer"
	"go/token"
	"os"
	"path/filepath"
	"strconv"
	"strings"
)

const module = "github.com/diskfs/go-diskfs"

var knownSync = map[string]bool{"Mutex": true, "RWMutex": true, "WaitGroup": true, "Once": true, "Pool": true,
	"Map": true, "Cond": true, "Locker": true, "NewCond": true, "OnceFunc": true}

func fatal(f string, a ...any) {
	fmt.Fprintf(os.Stderr, "INFRA-ERROR mkoverlay: "+f+"\n", a...)
	os.Exit(2)
}

func main() {
	repo := flag.String("repo", "/repo", "repository working tree")
	hooks := flag.String("hooks", "", "directory with vtime/ vsync/ export/")
	out := flag.String("out", "", "output directory")
	flag.Parse()
	if *hooks == "" || *out == "" {
		fatal("need -hooks and -out")
	}
	if err := os.MkdirAll(*out, 0o755); err != nil {
		fatal("%v", err)
	}
	replace := map[string]string{}
	n := 0
	emit := func(target string, content []byte) {
		n++
		p := filepath.Join(*out, fmt.Sprintf("f%03d_%s", n, filepath.Base(target)))
		if err := os.WriteFile(p, content, 0o644); err != nil {
			fatal("%v", err)
		}
		replace[target] = p
	}
	// virtual packages
	for _, pkg := range []string{"vtime", "vsync"} {
		b, err := os.ReadFile(filepath.Join(*hooks, pkg, pkg+".go"))
		if err != nil {
			fatal("%v", err)
		}
		emit(filepath.Join(*repo, "verifhook", pkg, pkg+".go"), b)
	}
	// export files
	exps, _ := filepath.Glob(filepath.Join(*hooks, "export", "*.go"))
	for _, e := range exps {
		b, err := os.ReadFile(e)
		if err != nil {
			fatal("%v", err)
		}
		dir := strings.ReplaceAll(strings.TrimSuffix(filepath.Base(e), ".go"), "__", "/")
		emit(filepath.Join(*repo, dir, "zz_verif_export.go"), b)
	}
	// rewrites
	rewritten := 0
	err := filepath.Walk(*repo, func(p string, info os.FileInfo, err error) error {
		if err != nil {
			return err
		}
		if info.IsDir() {
			b := info.Name()
			if b == ".git" || b == "testdata" || b == "examples" || b == "verifhook" {
				return filepath.SkipDir
			}
			return nil
		}
		if !strings.HasSuffix(p, ".go") || strings.HasSuffix(p, "_test.go") {
			return nil
		}
		src, err := os.ReadFile(p)
		if err != nil {
			return err
		}
		inSquash := filepath.Dir(p) == filepath.Join(*repo, "filesystem", "squashfs")
		if !bytes.Contains(src, []byte("time.Now")) && !(inSquash && bytes.Contains(src, []byte(`"sync"`))) {
			return nil
		}
		fset := token.NewFileSet()
		f, err := parser.ParseFile(fset, p, src, parser.ParseComments)
		if err != nil {
			// a tree that does not parse does not build either; let the compiler report it
			return nil
		}
		changed := false
		// time.Now -> vtime.Now
		timeName := ""
		syncName := ""
		for _, im := range f.Imports {
			path, _ := strconv.Unquote(im.Path.Value)
			name := ""
			if im.Name != nil {
				name = im.Name.Name
			}
			if path == "time" {
				timeName = "time"
				if name != "" {
					timeName = name
				}
			}
			if path == "sync" && inSquash {
				syncName = "sync"
				if name != "" {
					syncName = name
				}
				im.Path.Value = strconv.Quote(module + "/verifhook/vsync")
				if im.Name == nil {
					im.Name = ast.NewIdent("sync")
				}
				changed = true
			}
		}
		usedNow := false
		ast.Inspect(f, func(n ast.Node) bool {
			sel, ok := n.(*ast.SelectorExpr)
			if !ok {
				return true
			}
			id, ok := sel.X.(*ast.Ident)
			if !ok || id.Obj != nil {
				return true
			}
			if timeName != "" && id.Name == timeName && sel.Sel.Name == "Now" {
				id.Name = "verifvtime"
				usedNow = true
				changed = true
			}
			if syncName != "" && id.Name == syncName && !knownSync[sel.Sel.Name] {
				fatal("%s uses sync.%s which the vsync shim does not provide", p, sel.Sel.Name)
			}
			return true
		})
		if !changed {
			return nil
		}
		if usedNow {
			// add the import and keep "time" used
			spec := &ast.ImportSpec{Name: ast.NewIdent("verifvtime"), Path: &ast.BasicLit{Kind: token.STRING, Value: strconv.Quote(module + "/verifhook/vtime")}}
			added := false
			for _, d := range f.Decls {
				if gd, ok := d.(*ast.GenDecl); ok && gd.Tok == token.IMPORT {
					gd.Specs = append(gd.Specs, spec)
					if !gd.Lparen.IsValid() {
						gd.Lparen = gd.Pos()
						gd.Rparen = gd.End()
					}
					added = true
					break
				}
			}
			if !added {
				fatal("%s: no import declaration", p)
			}
		}
		var buf bytes.Buffer
		if err := (&printer.Config{Mode: printer.UseSpaces | printer.TabIndent, Tabwidth: 8}).Fprint(&buf, fset, f); err != nil {
			return err
		}
		if usedNow {
			fmt.Fprintf(&buf, "\nvar _ %s.Time\n", timeName)
		}
		emit(p, buf.Bytes())
		rewritten++
		return nil
	})
	if err != nil {
		fatal("%v", err)
	}
	js, _ := json.MarshalIndent(map[string]any{"Replace": replace}, "", " ")
	if err := os.WriteFile(filepath.Join(*out, "overlay.json"), js, 0o644); err != nil {
		fatal("%v", err)
	}
	fmt.Printf("overlay: %d files (%d rewritten) -> %s\n", len(replace), rewritten, filepath.Join(*out, "overlay.json"))
}
