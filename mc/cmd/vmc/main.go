// vmc: one sub-command per property.  vmc Cnn quick|thorough ;  vmc replay <file>
package main

import (
	"io"
	"log"
	"runtime/debug"
	"time"

	"encoding/json"
	"fmt"
	"github.com/diskfs/go-diskfs/verifhook/vtime"
	"os"
	"sort"

	"verifmc/checks"
	"verifmc/ev"
)

func main() {
	if len(os.Args) < 2 {
		fmt.Println("usage: vmc Cnn quick|thorough | vmc replay <file> | vmc worker ...")
		os.Exit(2)
	}
	// own the environment: fixed clock, fixed SOURCE_DATE_EPOCH (drivers that vary them do so explicitly)
	os.Setenv("SOURCE_DATE_EPOCH", "1700000000")
	fixed := time.Unix(1700000000, 0).UTC()
	vtime.Set(func() time.Time { return fixed })
	debug.SetGCPercent(1000)
	// the generous GC percentage buys speed; the soft limit keeps a run that holds many large images at once (C07 thorough:
	// trees at 1 MiB blocks on sixteen workers) from growing until the kernel kills it
	debug.SetMemoryLimit(24 << 30)
	log.SetOutput(io.Discard) // the library logs progress lines through the standard logger
	switch os.Args[1] {
	case "list":
		var ids []string
		for id := range checks.Registry {
			ids = append(ids, id)
		}
		sort.Strings(ids)
		for _, id := range ids {
			fmt.Println(id, checks.Registry[id].Level)
		}
		return
	case "replay":
		if len(os.Args) < 3 {
			os.Exit(2)
		}
		b, err := os.ReadFile(os.Args[2])
		if err != nil {
			fmt.Println(err)
			os.Exit(2)
		}
		var rp struct {
			Property  string          `json:"property"`
			Signature string          `json:"signature"`
			Case      json.RawMessage `json:"case"`
		}
		if err := json.Unmarshal(b, &rp); err != nil {
			fmt.Println(err)
			os.Exit(2)
		}
		f, ok := checks.Replayers[rp.Property]
		if !ok {
			fmt.Println("no replayer for", rp.Property)
			os.Exit(2)
		}
		res := f(rp.Case)
		fmt.Printf("replay %s: recorded signature %q\nobserved: %s\n", rp.Property, rp.Signature, res)
		if res != "holds" {
			os.Exit(1)
		}
		return
	case "worker":
		checks.WorkerMain(os.Args[2:])
		return
	}
	id := os.Args[1]
	tier := "quick"
	if len(os.Args) > 2 {
		tier = os.Args[2]
	}
	c, ok := checks.Registry[id]
	if !ok {
		fmt.Println("INFRA-ERROR unknown check", id)
		os.Exit(2)
	}
	r := ev.Start(id, tier, c.Level)
	c.Fn(r)
	os.Exit(r.Finish())
}
