// Package ev writes evidence files, replay files and applies the known-findings protocol.
package ev

import (
	"crypto/sha256"
	"encoding/hex"
	"encoding/json"
	"fmt"
	"os"
	"path/filepath"
	"regexp"
	"sort"
	"strconv"
	"strings"
	"sync"
	"time"
)

var Root = "/verif"

type Finding struct {
	Property  string          `json:"property"`
	Signature string          `json:"signature"`
	What      string          `json:"what"`
	Minimal   json.RawMessage `json:"minimal_case,omitempty"`
}

type findingsFile struct {
	Findings []Finding `json:"findings"`
	Fixed    []string  `json:"fixed"`
}

type Violation struct {
	Signature string `json:"signature"`
	Message   string `json:"message"`
	Case      any    `json:"case"`
}

type Run struct {
	Prop, Tier, Level string
	Seed              int64
	start             time.Time
	mu                sync.Mutex
	Cov               map[string]any
	Assumptions       []string
	known             map[string]Finding
	knownHit          map[string]int
	viol              []Violation
	violSig           map[string]int
	samples           []any
	Deadline          time.Time
	Capped            bool
}

func (r *Run) init() {
	if r.Cov == nil {
		r.Cov = map[string]any{}
	}
	if r.known == nil {
		r.known = map[string]Finding{}
		r.knownHit = map[string]int{}
		r.violSig = map[string]int{}
	}
}

func Start(prop, tier, level string) *Run {
	if v := os.Getenv("VERIF_ROOT"); v != "" {
		Root = v
	}
	r := &Run{Prop: prop, Tier: tier, Level: level, start: time.Now()}
	r.init()
	if s := os.Getenv("VERIF_SEED"); s != "" {
		r.Seed, _ = strconv.ParseInt(s, 10, 64)
	}
	b, err := os.ReadFile(filepath.Join(Root, "known_findings.json"))
	if err == nil {
		var ff findingsFile
		if err := json.Unmarshal(b, &ff); err != nil {
			fmt.Printf("INFRA-ERROR known_findings.json does not parse: %v\n", err)
			os.Exit(2)
		}
		for _, f := range ff.Findings {
			if f.Property == prop {
				r.known[f.Signature] = f
			}
		}
	}
	// internal budget: a cap is never an alarm
	budget := 150 * time.Second
	if tier == "thorough" {
		budget = 25 * time.Minute
	}
	if s := os.Getenv("VERIF_BUDGET_S"); s != "" {
		if v, err := strconv.Atoi(s); err == nil {
			budget = time.Duration(v) * time.Second
		}
	}
	r.Deadline = r.start.Add(budget)
	return r
}

// Budget returns a sub-deadline: fraction of the total budget from now.
func (r *Run) OutOfTime() bool {
	if time.Now().After(r.Deadline) {
		r.mu.Lock()
		r.Capped = true
		r.mu.Unlock()
		return true
	}
	return false
}

func (r *Run) Quick() bool { return r.Tier != "thorough" }

// IsKnown reports whether sig is a listed finding (so that explorers can prune behind it).
func (r *Run) IsKnown(sig string) bool {
	sig = NormSig(sig)
	r.mu.Lock()
	defer r.mu.Unlock()
	_, ok := r.known[sig]
	return ok
}

// Report records a property violation with a signature. Listed findings are counted, not reported.
// Returns true if it was a known finding.
func (r *Run) Report(sig, msg string, cas any) bool {
	sig = NormSig(sig)
	r.mu.Lock()
	defer r.mu.Unlock()
	if _, ok := r.known[sig]; ok {
		r.knownHit[sig]++
		return true
	}
	r.violSig[sig]++
	if r.violSig[sig] > 1 && len(r.viol) >= 1 {
		// keep one replay per signature (the first = shortest under BFS), up to 25 signatures
		return false
	}
	if len(r.viol) < 120 {
		r.viol = append(r.viol, Violation{sig, msg, cas})
	}
	return false
}

func (r *Run) Violations() int {
	r.mu.Lock()
	defer r.mu.Unlock()
	n := 0
	for _, c := range r.violSig {
		n += c
	}
	return n
}

func (r *Run) Sample(s any) {
	r.mu.Lock()
	defer r.mu.Unlock()
	if len(r.samples) < 12 {
		r.samples = append(r.samples, s)
	}
}

func (r *Run) Set(k string, v any) {
	r.mu.Lock()
	defer r.mu.Unlock()
	r.Cov[k] = v
}

func (r *Run) Add(k string, n int64) {
	r.mu.Lock()
	defer r.mu.Unlock()
	old, _ := r.Cov[k].(int64)
	r.Cov[k] = old + n
}

func (r *Run) Get(k string) int64 {
	r.mu.Lock()
	defer r.mu.Unlock()
	v, _ := r.Cov[k].(int64)
	return v
}

func (r *Run) Assume(s string) { r.Assumptions = append(r.Assumptions, s) }

// Finish writes the evidence and replay files, prints the verdict lines and returns the exit code.
func (r *Run) Finish() int {
	r.mu.Lock()
	defer r.mu.Unlock()
	if len(r.samples) > 0 {
		r.Cov["samples"] = r.samples
	}
	if r.Capped {
		r.Cov["exhaustive"] = false
		r.Cov["cap_hit"] = "internal time budget reached; everything reported as covered was completed below the cap"
	}
	nviol := 0
	for _, c := range r.violSig {
		nviol += c
	}
	kh := map[string]int{}
	sigs := make([]string, 0, len(r.knownHit))
	for s := range r.knownHit {
		sigs = append(sigs, s)
	}
	sort.Strings(sigs)
	for _, s := range sigs {
		kh[s] = r.knownHit[s]
		fmt.Printf("KNOWN-FINDING: property=%s %s [%s] (%d occurrences in this run)\n", r.Prop, r.known[s].What, s, r.knownHit[s])
	}
	if len(kh) > 0 {
		r.Cov["known_findings_hit"] = kh
	}
	if len(r.violSig) > 0 {
		r.Cov["violation_signatures"] = r.violSig
	}
	evd := map[string]any{
		"property_id": r.Prop, "tier": r.Tier, "seed": r.Seed, "level": r.Level,
		"coverage": r.Cov, "assumptions": r.Assumptions, "wall_s": time.Since(r.start).Seconds(), "violations": nviol,
	}
	if r.Assumptions == nil {
		evd["assumptions"] = []string{}
	}
	_ = os.MkdirAll(filepath.Join(Root, "evidence"), 0o755)
	b, _ := json.MarshalIndent(evd, "", " ")
	if err := os.WriteFile(filepath.Join(Root, "evidence", r.Prop+".json"), b, 0o644); err != nil {
		fmt.Printf("INFRA-ERROR cannot write evidence: %v\n", err)
		return 2
	}
	for _, v := range r.viol {
		_ = os.MkdirAll(filepath.Join(Root, "replay"), 0o755)
		rb, _ := json.MarshalIndent(map[string]any{"property": r.Prop, "signature": v.Signature, "message": v.Message, "case": v.Case}, "", " ")
		h := sha256.Sum256([]byte(v.Signature))
		p := filepath.Join(Root, "replay", r.Prop+"-"+hex.EncodeToString(h[:6])+".json")
		_ = os.WriteFile(p, rb, 0o644)
		fmt.Printf("VIOLATION property=%s replay=%s\n", r.Prop, p)
		fmt.Printf("  signature: %s\n  %s\n", v.Signature, clip300(v.Message))
	}
	fmt.Printf("%s %s: %s wall=%.1fs violations=%d known=%d\n", r.Prop, r.Tier, summary(r.Cov), time.Since(r.start).Seconds(), nviol, len(kh))
	if nviol > 0 {
		return 1
	}
	return 0
}

func summary(c map[string]any) string {
	ks := []string{"states", "transitions", "traces_validated_against_impl", "evaluations", "distinct_nontrivial", "max_depth", "fixpoint", "exhaustive"}
	s := ""
	for _, k := range ks {
		if v, ok := c[k]; ok {
			s += fmt.Sprintf("%s=%v ", k, v)
		}
	}
	return s
}

func clip300(s string) string {
	if len(s) > 300 {
		return s[:300] + "..."
	}
	return s
}

var reSigNums = regexp.MustCompile(`\[[0-9:x]*\]|[0-9]+`)

// NormSig drops indices, lengths and capacities from the panic part of a signature, so that one faulty site is one
// signature whatever the values involved.
func NormSig(sig string) string {
	i := strings.Index(sig, "panic")
	if i < 0 {
		return sig
	}
	head, s := sig[:i], sig[i:]
	s = reSigNums.ReplaceAllString(s, "")
	s = strings.ReplaceAll(s, " with length ", "")
	s = strings.ReplaceAll(s, " with capacity ", "")
	s = strings.ReplaceAll(s, "runtime error: ", "")
	return head + strings.Join(strings.Fields(s), " ")
}
