// Package vsync is a drop-in for the parts of "sync" used by filesystem/squashfs, injected by the
// verification build overlay. With no Hook installed every operation forwards to the real sync primitive
// (this is the mode of the free-running -race pass). With a Hook installed, Lock/Unlock are scheduling points
// of a cooperative scheduler that owns mutual exclusion itself.
package vsync

import "sync"

type Hook interface {
	Lock(m *Mutex)
	Unlock(m *Mutex)
	RLock(m *RWMutex)
	RUnlock(m *RWMutex)
	WLock(m *RWMutex)
	WUnlock(m *RWMutex)
}

// H is read on every operation; it is set only while no library code runs.
var H Hook

type Mutex struct {
	real sync.Mutex
	// Owner is maintained by the Hook (0 = free).
	Owner int
}

func (m *Mutex) Lock() {
	if H != nil {
		H.Lock(m)
		return
	}
	m.real.Lock()
}

func (m *Mutex) Unlock() {
	if H != nil {
		H.Unlock(m)
		return
	}
	m.real.Unlock()
}

func (m *Mutex) TryLock() bool {
	if H != nil {
		if m.Owner != 0 {
			return false
		}
		H.Lock(m)
		return true
	}
	return m.real.TryLock()
}

type RWMutex struct {
	real    sync.RWMutex
	Writer  int
	Readers int
}

func (m *RWMutex) Lock() {
	if H != nil {
		H.WLock(m)
		return
	}
	m.real.Lock()
}
func (m *RWMutex) Unlock() {
	if H != nil {
		H.WUnlock(m)
		return
	}
	m.real.Unlock()
}
func (m *RWMutex) RLock() {
	if H != nil {
		H.RLock(m)
		return
	}
	m.real.RLock()
}
func (m *RWMutex) RUnlock() {
	if H != nil {
		H.RUnlock(m)
		return
	}
	m.real.RUnlock()
}

type (
	WaitGroup = sync.WaitGroup
	Once      = sync.Once
	Pool      = sync.Pool
	Map       = sync.Map
	Cond      = sync.Cond
	Locker    = sync.Locker
)

func NewCond(l Locker) *Cond { return sync.NewCond(l) }
func OnceFunc(f func()) func() { return sync.OnceFunc(f) }
