package fat12

// VerifTableBytes exposes the in-memory FAT (verification build overlay only): the library caches the table in
// memory, so two states are only merged by the explorer when both the disk and this cache are identical.
func (fs *FileSystem) VerifTableBytes() []byte { return fs.table.Bytes() }

// VerifUsedClusters reports, for every cluster number up to the FAT capacity, whether the in-memory FAT marks it used.
func (fs *FileSystem) VerifUsedClusters() []bool {
	n := fs.table.MaxCluster()
	out := make([]bool, n+1)
	for i := uint32(2); i <= n; i++ {
		out[i] = fs.table.ClusterValue(i) != 0
	}
	return out
}
