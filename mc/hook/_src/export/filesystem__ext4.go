package ext4

import "fmt"

// VerifStateBytes exposes the allocation counters the library caches in memory (verification build overlay only),
// so that the explorer merges two states only when disk and cache agree.
func (fs *FileSystem) VerifStateBytes() []byte {
	s := fmt.Sprintf("%d|%d|", fs.superblock.freeBlocks, fs.superblock.freeInodes)
	if fs.groupDescriptors != nil {
		for _, gd := range fs.groupDescriptors.descriptors {
			s += fmt.Sprintf("%d,%d,%d,%d;", gd.freeBlocks, gd.freeInodes, gd.usedDirectories, gd.unusedInodes)
		}
	}
	return []byte(s)
}
