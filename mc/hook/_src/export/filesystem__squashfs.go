package squashfs

// Verification build overlay only: access to the unexported LRU for the scheduler harness.

type VerifLRU struct{ l *lru }

func VerifNewLRU(maxBlocks int) *VerifLRU { return &VerifLRU{newLRU(maxBlocks)} }

func (v *VerifLRU) Get(pos int64, fetch func() ([]byte, uint16, error)) ([]byte, uint16, error) {
	return v.l.get(pos, fetch)
}

func (v *VerifLRU) SetMaxBlocks(n int) { v.l.setMaxBlocks(n) }

// Dump returns the keys of the cache map, the positions in list order (head first) and maxBlocks, plus whether the
// circular list is well linked. Must only be called at quiescence.
func (v *VerifLRU) Dump() (keys []int64, list []int64, maxBlocks int, wellLinked bool) {
	l := v.l
	for k := range l.cache {
		keys = append(keys, k)
	}
	wellLinked = true
	n := 0
	for b := l.root.next; b != &l.root; b = b.next {
		if b == nil || b.next == nil || b.next.prev != b {
			wellLinked = false
			break
		}
		list = append(list, b.pos)
		n++
		if n > len(l.cache)+4 {
			wellLinked = false
			break
		}
	}
	return keys, list, l.maxBlocks, wellLinked
}

// VerifCache exposes the filesystem's block cache (nil when caching is off).
func (fs *FileSystem) VerifCache() *VerifLRU {
	if fs.cache == nil {
		return nil
	}
	return &VerifLRU{fs.cache}
}
