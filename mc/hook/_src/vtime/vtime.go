// Package vtime is the clock seam injected by the verification build overlay: every time.Now() call in
// the library is rewritten to vtime.Now(). With no clock installed it forwards to time.Now.
package vtime

import (
	"sync/atomic"
	"time"
)

var nowFn atomic.Pointer[func() time.Time]

// Calls counts how many times the library asked for the wall clock.
var Calls atomic.Int64

// Set installs (or, with nil, removes) the clock.
func Set(f func() time.Time) {
	if f == nil {
		nowFn.Store(nil)
		return
	}
	nowFn.Store(&f)
}

func Now() time.Time {
	Calls.Add(1)
	if f := nowFn.Load(); f != nil {
		return (*f)()
	}
	return time.Now()
}
