package checks

import (
	"crypto/sha256"
	"encoding/binary"
	"errors"
	"fmt"
	"io"
	"os"
	"sort"
	"strings"
	"time"

	"github.com/diskfs/go-diskfs/filesystem"
	"github.com/diskfs/go-diskfs/filesystem/ext4"
	"github.com/diskfs/go-diskfs/filesystem/fat12"
	"github.com/diskfs/go-diskfs/filesystem/fat16"
	"github.com/diskfs/go-diskfs/filesystem/fat32"
	"github.com/google/uuid"

	"verifmc/explore"
	"verifmc/memdev"
	"verifmc/oracle/fatck"
)

// ---- configuration -----------------------------------------------------------------------------------

type fatCfg struct {
	Type         int   `json:"type"` // 12, 16, 32
	Size         int64 `json:"size"`
	Start        int64 `json:"start"`
	Blocksize    int64 `json:"blocksize"`
	Reproducible bool  `json:"reproducible"`
	// ext4 (Type == 4)
	E4SectorsPerBlock uint8  `json:"e4_sectors_per_block,omitempty"`
	E4NoCsum          bool   `json:"e4_no_csum,omitempty"`
	E4Journal         bool   `json:"e4_journal,omitempty"`
	E4Feat            string `json:"e4_feat,omitempty"` // feature-set tag used by C05's Create matrix
}

func (c fatCfg) String() string {
	if c.Type == 4 {
		t := fmt.Sprintf("ext4/%d@%d/bs%d", c.Size, c.Start, int(c.E4SectorsPerBlock)*512)
		if c.E4NoCsum {
			t += "/nocsum"
		}
		if c.E4Journal {
			t += "/journal"
		}
		if c.E4Feat != "" {
			t += "/" + c.E4Feat
		}
		return t
	}
	return fmt.Sprintf("fat%d/%d@%d", c.Type, c.Size, c.Start)
}

func (c fatCfg) ext4Params() *ext4.Params {
	feats := []ext4.FeatureOpt{ext4.WithFeatureHasJournal(c.E4Journal), ext4.WithFeatureReservedGDTBlocksForExpansion(false)}
	if c.E4NoCsum {
		feats = append(feats, ext4.WithFeatureMetadataChecksums(false), ext4.WithFeatureGDTChecksum(false))
	} else {
		// metadata_csum is NOT among the library's default features: it has to be asked for
		feats = append(feats, ext4.WithFeatureMetadataChecksums(true))
	}
	feats = append(feats, ext4FeatTag(c.E4Feat)...)
	u := uuid.MustParse("01234567-89ab-4cde-8f01-23456789abcd")
	p := &ext4.Params{UUID: &u, SectorsPerBlock: c.E4SectorsPerBlock, Features: feats, Checksum: !c.E4NoCsum, VolumeName: "VERIF"}
	for _, t := range strings.Split(c.E4Feat, ",") {
		switch {
		case t == "ssv2":
			p.SparseSuperVersion = 2
		case strings.HasPrefix(t, "bpg="):
			fmt.Sscanf(t, "bpg=%d", &p.BlocksPerGroup)
		case strings.HasPrefix(t, "ratio="):
			fmt.Sscanf(t, "ratio=%d", &p.InodeRatio)
		case strings.HasPrefix(t, "inodes="):
			fmt.Sscanf(t, "inodes=%d", &p.InodeCount)
		}
	}
	return p
}

const fatGuard = 8 << 10

func (c fatCfg) devSize() int64 { return c.Start + c.Size + fatGuard }

type tableDumper interface{ VerifTableBytes() []byte }

func fatCreate(c fatCfg, d *memdev.Dev) (filesystem.FileSystem, error) {
	b := be(d, false)
	switch c.Type {
	case 4:
		return ext4.Create(b, c.Size, c.Start, 512, c.ext4Params())
	case 12:
		return fat12.Create(b, c.Size, c.Start, c.Blocksize, "VERIF", c.Reproducible)
	case 16:
		return fat16.Create(b, c.Size, c.Start, c.Blocksize, "VERIF", c.Reproducible)
	}
	return fat32.Create(b, c.Size, c.Start, c.Blocksize, "VERIF", c.Reproducible)
}

func fatRead(c fatCfg, d *memdev.Dev, ro bool) (filesystem.FileSystem, error) {
	b := be(d, ro)
	switch c.Type {
	case 4:
		return ext4.Read(b, c.Size, c.Start, 512)
	case 12:
		return fat12.Read(b, c.Size, c.Start, c.Blocksize)
	case 16:
		return fat16.Read(b, c.Size, c.Start, c.Blocksize)
	}
	return fat32.Read(b, c.Size, c.Start, c.Blocksize)
}

func fatClusterBytes(c fatCfg, fs filesystem.FileSystem) int {
	type bpc interface{ BytesPerCluster() int }
	if x, ok := fs.(bpc); ok {
		return x.BytesPerCluster()
	}
	if c.Type == 4 {
		if c.E4SectorsPerBlock == 0 {
			return 1024
		}
		return int(c.E4SectorsPerBlock) * 512
	}
	return 512
}

// ---- operations --------------------------------------------------------------------------------------

type fsOp struct {
	Kind  string `json:"kind"` // mkdir create write append trunc rename remove reopen readpartial
	Path  string `json:"path,omitempty"`
	Path2 string `json:"path2,omitempty"`
	Off   string `json:"off,omitempty"` // "0" "mid" "eof" "past" "cmid" (half a cluster)
	Len   string `json:"len,omitempty"` // number, or c-1 c c+1 2c+1 p40 p70 (percent of capacity)
}

func (o fsOp) String() string {
	switch o.Kind {
	case "write":
		return fmt.Sprintf("write(%s,off=%s,len=%s)", o.Path, o.Off, o.Len)
	case "append":
		return fmt.Sprintf("append(%s,len=%s)", o.Path, o.Len)
	case "rename":
		return fmt.Sprintf("rename(%s->%s)", o.Path, o.Path2)
	case "reopen":
		return "reopen"
	case "symlink":
		return fmt.Sprintf("symlink(%s->%s[%d])", o.Path, clip(o.Path2), len(o.Path2))
	case "chmod", "chown", "chtimes":
		return fmt.Sprintf("%s(%s,%s)", o.Kind, o.Path, o.Len)
	case "heldwrite", "heldread":
		return fmt.Sprintf("%s(off=%s,len=%s)", o.Kind, o.Off, o.Len)
	case "rmw":
		return fmt.Sprintf("read-then-write(%s,off=%s,len=%s)", o.Path, o.Off, o.Len)
	case "release":
		return "release"
	}
	return o.Kind + "(" + o.Path + ")"
}

// ---- reference model ---------------------------------------------------------------------------------

type refNode struct {
	Dir  bool
	Data []byte
	Name string // display spelling
	Link string // symlink target ("" = not a symlink)
	// attributes that an accepted call has set (nil = never set, not compared)
	Mode  *uint32 // permission + setuid/setgid/sticky bits as os.FileMode bits
	UID   *int64
	GID   *int64
	MTime *int64 // unix nanoseconds
	ATime *int64
	CTime *int64
}

type refTree struct {
	caseFold bool
	n        map[string]*refNode
}

func newRefTree(caseFold bool) *refTree {
	return &refTree{caseFold: caseFold, n: map[string]*refNode{}}
}

func (t *refTree) key(p string) string {
	if t.caseFold {
		return strings.ToLower(p)
	}
	return p
}
func (t *refTree) get(p string) *refNode { return t.n[t.key(p)] }
func (t *refTree) parentOK(p string) bool {
	i := strings.LastIndex(p, "/")
	if i < 0 {
		return true
	}
	pn := t.get(p[:i])
	return pn != nil && pn.Dir
}
func baseName(p string) string { return p[strings.LastIndex(p, "/")+1:] }

func (t *refTree) mkdirAll(p string) {
	parts := strings.Split(p, "/")
	for i := range parts {
		q := strings.Join(parts[:i+1], "/")
		if t.get(q) == nil {
			t.n[t.key(q)] = &refNode{Dir: true, Name: parts[i]}
		}
	}
}

func (t *refTree) children(p string) []string {
	var out []string
	pre := t.key(p) + "/"
	if p == "." || p == "" {
		pre = ""
	}
	for k := range t.n {
		if strings.HasPrefix(k, pre) && !strings.Contains(k[len(pre):], "/") && k != t.key(p) {
			out = append(out, k)
		}
	}
	sort.Strings(out)
	return out
}

func (t *refTree) digest() [32]byte {
	h := sha256.New()
	ks := make([]string, 0, len(t.n))
	for k := range t.n {
		ks = append(ks, k)
	}
	sort.Strings(ks)
	for _, k := range ks {
		n := t.n[k]
		fmt.Fprintf(h, "%s|%v|%d|%s|%s|%s|%s|%s|%s|%s|", k, n.Dir, len(n.Data), n.Link, pv(n.Mode), pv(n.UID), pv(n.GID), pv(n.MTime), pv(n.ATime), pv(n.CTime))
		h.Write(n.Data)
	}
	var o [32]byte
	copy(o[:], h.Sum(nil))
	return o
}

func (t *refTree) clone() *refTree {
	c := newRefTree(t.caseFold)
	for k, v := range t.n {
		cp := *v
		cp.Data = append([]byte(nil), v.Data...)
		c.n[k] = &cp
	}
	return c
}

func pv[T uint32 | int64](p *T) string {
	if p == nil {
		return "-"
	}
	return fmt.Sprint(*p)
}

func patternBytes(seed, n int) []byte {
	b := make([]byte, n)
	for i := range b {
		b[i] = byte(1 + (i*7+seed*31+i/251)%255)
	}
	return b
}

// ---- live view ---------------------------------------------------------------------------------------

type viewNode struct {
	Dir   bool
	Data  []byte
	Size  int64
	Name  string
	Link  string
	IsLnk bool
	Mode  uint32
	UID   int64
	GID   int64
	MTime int64
	ATime int64
	CTime int64
}

type linkReader interface {
	ReadLink(p string) (string, error)
}

// fsView walks the filesystem through its public API. chunk is the Read buffer size for file contents.
func fsView(fs filesystem.FileSystem, caseFold bool, chunk int, limit int) (map[string]viewNode, error) {
	out := map[string]viewNode{}
	var walk func(dir string, depth int) error
	walk = func(dir string, depth int) error {
		if depth > 12 {
			return errors.New("directory nesting deeper than anything created")
		}
		ents, err := fs.ReadDir(dir)
		if err != nil {
			return fmt.Errorf("ReadDir(%s): %w", dir, err)
		}
		for _, e := range ents {
			name := e.Name()
			p := name
			if dir != "." {
				p = dir + "/" + name
			}
			k := p
			if caseFold {
				k = strings.ToLower(p)
			}
			if _, dup := out[k]; dup {
				return fmt.Errorf("name %s listed twice in %s", name, dir)
			}
			vn := viewNode{Dir: e.IsDir(), Name: name}
			fi, err := e.Info()
			if err == nil {
				vn.Size = fi.Size()
				vn.IsLnk = fi.Mode()&os.ModeSymlink != 0
			}
			// attributes are observed through Stat (the entry point the properties name)
			if !caseFold {
				if sfi, serr := fs.Stat(p); serr == nil {
					fi, err = sfi, nil
				}
			}
			if err == nil {
				vn.Mode = uint32(fi.Mode() & (os.ModePerm | os.ModeSetuid | os.ModeSetgid | os.ModeSticky))
				vn.MTime = fi.ModTime().UnixNano()
				vn.IsLnk = vn.IsLnk || fi.Mode()&os.ModeSymlink != 0
				if st, ok := fi.Sys().(*ext4.StatT); ok && st != nil {
					vn.UID, vn.GID = int64(st.UID), int64(st.GID)
					vn.ATime, vn.CTime = st.AccessTime.UnixNano(), st.CreateTime.UnixNano()
				}
			}
			if vn.IsLnk || e.Type()&os.ModeSymlink != 0 {
				vn.IsLnk = true
				if lr, ok := fs.(linkReader); ok {
					tg, err := lr.ReadLink(p)
					if err != nil {
						return fmt.Errorf("ReadLink(%s): %w", p, err)
					}
					vn.Link = tg
				}
				out[k] = vn
				continue
			}
			if e.IsDir() {
				out[k] = vn
				if err := walk(p, depth+1); err != nil {
					return err
				}
				continue
			}
			f, err := fs.OpenFile(p, os.O_RDONLY)
			if err != nil {
				return fmt.Errorf("OpenFile(%s): %w", p, err)
			}
			var data []byte
			buf := make([]byte, chunk)
			for len(data) <= limit {
				n, err := f.Read(buf)
				data = append(data, buf[:n]...)
				if err == io.EOF {
					break
				}
				if err != nil {
					_ = f.Close()
					return fmt.Errorf("Read(%s): %w", p, err)
				}
				if n == 0 {
					_ = f.Close()
					return fmt.Errorf("Read(%s) returned 0, nil", p)
				}
			}
			_ = f.Close()
			vn.Data = data
			out[k] = vn
		}
		return nil
	}
	err := walk(".", 0)
	return out, err
}

// compareView returns a description of the first difference between the model and a view, ignoring the
// paths in skip (and everything below them).
func compareView(t *refTree, v map[string]viewNode, skip map[string]bool) (clause, detail string) {
	skipped := func(k string) bool {
		for s := range skip {
			if k == s || strings.HasPrefix(k, s+"/") {
				return true
			}
		}
		return false
	}
	ks := make([]string, 0, len(t.n))
	for k := range t.n {
		ks = append(ks, k)
	}
	sort.Strings(ks)
	for _, k := range ks {
		if skipped(k) {
			continue
		}
		m := t.n[k]
		g, ok := v[k]
		if !ok {
			return "missing-entry", fmt.Sprintf("%s exists in the reference tree but is not listed", k)
		}
		if g.Dir != m.Dir || g.IsLnk != (m.Link != "") {
			return "kind", fmt.Sprintf("%s: directory=%v symlink=%v, reference says directory=%v symlink=%v", k, g.Dir, g.IsLnk, m.Dir, m.Link != "")
		}
		if m.Link != "" && g.Link != m.Link {
			return "link-target", fmt.Sprintf("%s: link target %q (%d bytes), reference %q (%d bytes)", k, clip(g.Link), len(g.Link), clip(m.Link), len(m.Link))
		}
		if m.Mode != nil && g.Mode != *m.Mode {
			return "attr-mode", fmt.Sprintf("%s: mode %o, reference %o", k, g.Mode, *m.Mode)
		}
		if m.UID != nil && g.UID != *m.UID {
			return "attr-uid", fmt.Sprintf("%s: uid %d, reference %d", k, g.UID, *m.UID)
		}
		if m.GID != nil && g.GID != *m.GID {
			return "attr-gid", fmt.Sprintf("%s: gid %d, reference %d", k, g.GID, *m.GID)
		}
		if m.MTime != nil && g.MTime != *m.MTime {
			return "attr-mtime", fmt.Sprintf("%s: mtime %d, reference %d", k, g.MTime, *m.MTime)
		}
		if m.ATime != nil && g.ATime != *m.ATime {
			return "attr-atime", fmt.Sprintf("%s: atime %d, reference %d", k, g.ATime, *m.ATime)
		}
		if m.CTime != nil && g.CTime != *m.CTime {
			return "attr-ctime", fmt.Sprintf("%s: creation time %d, reference %d", k, g.CTime, *m.CTime)
		}
		if !m.Dir && m.Link == "" {
			if g.Size != int64(len(m.Data)) {
				return "size", fmt.Sprintf("%s: listed size %d, reference %d", k, g.Size, len(m.Data))
			}
			if len(g.Data) != len(m.Data) {
				return "content-length", fmt.Sprintf("%s: %d bytes read, reference has %d", k, len(g.Data), len(m.Data))
			}
			for i := range m.Data {
				if g.Data[i] != m.Data[i] {
					return "content", fmt.Sprintf("%s: byte %d is %#x, reference %#x (size %d)", k, i, g.Data[i], m.Data[i], len(m.Data))
				}
			}
		}
	}
	for k := range v {
		if skipped(k) {
			continue
		}
		if _, ok := t.n[k]; !ok {
			return "extra-entry", fmt.Sprintf("%s is listed but does not exist in the reference tree", k)
		}
	}
	return "", ""
}

func clip(s string) string {
	if len(s) > 24 {
		return s[:24] + "..."
	}
	return s
}

// ---- the system under exploration ---------------------------------------------------------------------

type fatSys struct {
	cfg       fatCfg
	dev       *memdev.Dev
	fs        filesystem.FileSystem
	model     *refTree
	cb        int // cluster bytes
	capB      int64
	nops      int
	oracle    string // "model" (C01), "fatck" (C08), "range" (C03)
	canonFree bool
	// what the writing handle showed after its Write was refused (judged against the fresh-handle view of the same file)
	shRefused *refusedHandleView
	// a handle that stays open across other calls (letters hold / heldwrite / release; structural oracles only)
	reopened  bool // the live filesystem object came from Read (a later session), not from Create
	held      filesystem.File
	heldPath  string
	heldStale int // calls made since the handle was opened
}

type refusedHandleView struct {
	path string
	data []byte
	size int64
	err  error
}

func newFatSys(c fatCfg, oracle string) (*fatSys, error) {
	d := memdev.New(c.devSize())
	// guard pattern before and after the volume
	if c.Start > 0 {
		g := make([]byte, 4096)
		for i := range g {
			g[i] = 0xA5
		}
		lo := c.Start - 4096
		if lo < 0 {
			lo = 0
		}
		d.Poke(g[:c.Start-lo], lo)
	}
	g := make([]byte, fatGuard)
	for i := range g {
		g[i] = 0x5A
	}
	d.Poke(g, c.Start+c.Size)
	// small volumes are created on a range that held other bytes before (re-formatting a used partition): whatever the new
	// filesystem hands out or reads without having written it first then shows as junk, not as convenient zeroes
	if c.Size <= 1<<20+8192 {
		dirtyRange(d, c.Start, c.Start+c.Size)
	}
	d.Allowed = []memdev.Range{{Lo: c.Start, Hi: c.Start + c.Size}}
	s := &fatSys{cfg: c, dev: d, model: newRefTree(c.Type != 4), oracle: oracle}
	var err error
	if pm := guard(func() { s.fs, err = fatCreate(c, d) }); pm != "" {
		return nil, errors.New(pm)
	}
	if err != nil {
		return nil, err
	}
	s.cb = fatClusterBytes(c, s.fs)
	s.capB = c.Size
	if c.Type == 4 {
		// what Create itself puts into the tree (lost+found) is part of the initial reference tree
		var v map[string]viewNode
		var verr error
		if pm := guard(func() { v, verr = fsView(s.fs, false, 4096, 1<<25) }); pm != "" {
			return nil, errors.New(pm)
		}
		if verr != nil {
			return nil, verr
		}
		for k, vn := range v {
			s.model.n[k] = &refNode{Dir: vn.Dir, Data: vn.Data, Name: vn.Name, Link: vn.Link}
		}
	}
	return s, nil
}

func (s *fatSys) resolveLen(l string, cur int) int {
	c := s.cb
	switch l {
	case "c-1":
		return c - 1
	case "c":
		return c
	case "c+1":
		return c + 1
	case "2c+1":
		return 2*c + 1
	case "p40":
		return int(s.capB * 40 / 100)
	case "p70":
		return int(s.capB * 70 / 100)
	case "p15":
		return int(s.capB * 15 / 100)
	case "5c":
		return 5 * c
	}
	var n int
	if strings.HasSuffix(l, "c+1") {
		if _, err := fmt.Sscanf(l, "%dc+1", &n); err == nil {
			return n*c + 1
		}
	}
	if strings.HasSuffix(l, "c") {
		if _, err := fmt.Sscanf(l, "%dc", &n); err == nil {
			return n * c
		}
	}
	fmt.Sscanf(l, "%d", &n)
	return n
}

func (s *fatSys) resolveOff(o string, cur int) int {
	switch o {
	case "mid":
		return cur / 2
	case "eof":
		return cur
	case "past":
		return cur + s.cb + 3
	case "cmid":
		return s.cb / 2
	}
	return 0
}

// apply executes one operation on the live filesystem and on the model.
// Returns the error of the library call (nil = accepted) and violations found by the per-call oracles.
func (s *fatSys) apply(op fsOp) (err error, viols []explore.Viol) {
	s.nops++
	s.shRefused = nil
	seed := opSeed(op)
	add := func(sig, msg string) { viols = append(viols, explore.Viol{Sig: sig, Msg: msg}) }
	m := s.model
	if s.held != nil {
		s.heldStale++
	}
	switch op.Kind {
	case "hold":
		if s.held != nil {
			_ = s.held.Close()
			s.held = nil
		}
		var f filesystem.File
		if pm := guard(func() { f, err = s.fs.OpenFile(op.Path, os.O_RDWR) }); pm != "" {
			add("hold|"+pm, pm)
			return errors.New(pm), viols
		}
		if err == nil {
			s.held, s.heldPath, s.heldStale = f, op.Path, 0
		}
		return err, viols
	case "release":
		if s.held == nil {
			return errors.New("no handle is held"), viols
		}
		pm := guard(func() { err = s.held.Close() })
		s.held = nil
		if pm != "" {
			add("release|"+pm, pm)
			return errors.New(pm), viols
		}
		return err, viols
	case "heldwrite", "heldread":
		if s.held == nil {
			return errors.New("no handle is held"), viols
		}
		cur := 0
		if n := m.get(s.heldPath); n != nil {
			cur = len(n.Data)
		}
		off, ln := s.resolveOff(op.Off, cur), s.resolveLen(op.Len, cur)
		pm := guard(func() {
			if _, err = s.held.Seek(int64(off), io.SeekStart); err != nil {
				return
			}
			if op.Kind == "heldread" {
				_, err = s.held.Read(make([]byte, ln))
				if err == io.EOF {
					err = nil
				}
				return
			}
			_, err = s.held.Write(patternBytes(seed, ln))
		})
		if pm != "" {
			add(op.Kind+"|"+pm, pm)
			return errors.New(pm), viols
		}
		return err, viols
	case "reopen":
		if s.held != nil {
			_ = s.held.Close()
			s.held = nil
		}
		var nfs filesystem.FileSystem
		pm := guard(func() { nfs, err = fatRead(s.cfg, s.dev, false) })
		if pm != "" {
			add("reopen|"+pm, "re-opening the image panicked: "+pm)
			return errors.New(pm), viols
		}
		if err != nil {
			add("reopen|error", "the image the library wrote cannot be re-opened: "+err.Error())
			return err, viols
		}
		s.fs = nfs
		s.reopened = true
		return nil, viols
	case "mkdir":
		pm := guard(func() { err = s.fs.Mkdir(op.Path) })
		if pm != "" {
			add("mkdir|"+pm, pm)
			return errors.New(pm), viols
		}
		if err == nil {
			m.mkdirAll(op.Path)
		}
	case "create", "write", "append", "trunc":
		flag := os.O_RDWR
		switch op.Kind {
		case "create", "write":
			flag |= os.O_CREATE
		case "append":
			flag |= os.O_CREATE | os.O_APPEND
		case "trunc":
			flag |= os.O_TRUNC
		}
		var f filesystem.File
		var n int
		var data []byte
		node := m.get(op.Path)
		existed := node != nil
		cur := 0
		if existed {
			cur = len(node.Data)
		}
		off := s.resolveOff(op.Off, cur)
		ln := s.resolveLen(op.Len, cur)
		if op.Kind == "append" {
			off = cur
		}
		if op.Kind == "write" || op.Kind == "append" {
			data = patternBytes(seed, ln)
		}
		var sameHandle []byte
		var shErr error
		pm := guard(func() {
			f, err = s.fs.OpenFile(op.Path, flag)
			if err != nil {
				return
			}
			defer f.Close()
			if data != nil {
				if op.Kind == "write" {
					if _, err = f.Seek(int64(off), io.SeekStart); err != nil {
						return
					}
				}
				n, err = f.Write(data)
				if err != nil {
					// the call is refused: the handle stays usable, so what it shows must still be the file
					// (compared with the fresh-handle view of the same file once the model is re-synchronised)
					rv := &refusedHandleView{path: op.Path, size: -1}
					if fi, e := f.Stat(); e == nil {
						rv.size = fi.Size()
					}
					if _, e := f.Seek(0, io.SeekStart); e != nil {
						rv.err = e
					} else {
						buf := make([]byte, 1000)
						for len(rv.data) < max(cur, off+ln)+2*s.cb+4096 {
							k, e := f.Read(buf)
							rv.data = append(rv.data, buf[:k]...)
							if e == io.EOF {
								break
							}
							if e != nil {
								rv.err = e
								break
							}
							if k == 0 {
								rv.err = errors.New("Read returned 0, nil")
								break
							}
						}
					}
					s.shRefused = rv
					return
				}
				if n != len(data) {
					err = fmt.Errorf("short write %d of %d without error", n, len(data))
					return
				}
				// read everything back through the same handle
				if _, shErr = f.Seek(0, io.SeekStart); shErr == nil {
					buf := make([]byte, 1000)
					for len(sameHandle) < max(cur, off+ln)+2*s.cb+4096 {
						k, e := f.Read(buf)
						sameHandle = append(sameHandle, buf[:k]...)
						if e == io.EOF {
							break
						}
						if e != nil {
							shErr = e
							break
						}
						if k == 0 {
							shErr = errors.New("Read returned 0, nil")
							break
						}
					}
				}
			}
		})
		if pm != "" {
			add(op.Kind+"|"+pm, pm)
			return errors.New(pm), viols
		}
		if err != nil {
			return err, viols
		}
		// accepted: apply to the model
		if !existed {
			if !m.parentOK(op.Path) || op.Kind == "trunc" {
				add(op.Kind+"|accepted-impossible", fmt.Sprintf("%s succeeded although the reference tree has no such %s", op, map[bool]string{true: "file", false: "parent directory"}[op.Kind == "trunc"]))
				return nil, viols
			}
			node = &refNode{Name: baseName(op.Path)}
			m.n[m.key(op.Path)] = node
		}
		if node.Dir {
			add(op.Kind+"|accepted-on-directory", fmt.Sprintf("%s succeeded on a directory", op))
			return nil, viols
		}
		if op.Kind == "trunc" {
			node.Data = nil
		}
		if data != nil {
			if off+ln > len(node.Data) {
				node.Data = append(node.Data, make([]byte, off+ln-len(node.Data))...)
			}
			copy(node.Data[off:], data)
			if s.oracle == "model" {
				if shErr != nil {
					add("same-handle|read-error", fmt.Sprintf("%s: reading back through the writing handle failed: %v", op, shErr))
				} else if string(sameHandle) != string(node.Data) {
					cl, det := "content", ""
					if len(sameHandle) != len(node.Data) {
						cl = "content-length"
						det = fmt.Sprintf("%d bytes, reference %d", len(sameHandle), len(node.Data))
					} else {
						for i := range sameHandle {
							if sameHandle[i] != node.Data[i] {
								det = fmt.Sprintf("byte %d is %#x, reference %#x", i, sameHandle[i], node.Data[i])
								break
							}
						}
					}
					add("same-handle|"+cl+"|"+op.Kind+offClass(op), fmt.Sprintf("%s: contents read back through the same handle differ: %s", op, det))
				}
			}
		}
	case "rmw":
		// read-modify-write through ONE handle: open read-write, read the first bytes, then write at an offset
		node := m.get(op.Path)
		cur := 0
		if node != nil {
			cur = len(node.Data)
		}
		off, ln := s.resolveOff(op.Off, cur), s.resolveLen(op.Len, cur)
		data := patternBytes(seed, ln)
		var got []byte
		pm := guard(func() {
			var f filesystem.File
			f, err = s.fs.OpenFile(op.Path, os.O_RDWR)
			if err != nil {
				return
			}
			defer f.Close()
			buf := make([]byte, s.cb+1)
			k, e := f.Read(buf)
			if e != nil && e != io.EOF {
				err = e
				return
			}
			got = buf[:k]
			if _, err = f.Seek(int64(off), io.SeekStart); err != nil {
				return
			}
			_, err = f.Write(data)
		})
		if pm != "" {
			add("rmw|"+pm, pm)
			return errors.New(pm), viols
		}
		if err != nil {
			return err, viols
		}
		if node == nil || node.Dir {
			add("rmw|accepted-impossible", fmt.Sprintf("%s succeeded although the reference tree has no such file", op))
			return nil, viols
		}
		if s.oracle == "model" {
			want := node.Data
			if len(want) > s.cb+1 {
				want = want[:s.cb+1]
			}
			if string(got) != string(want) {
				add("rmw|read-before-write|content", fmt.Sprintf("%s: the read before the write returned %d bytes that differ from the first %d bytes of the file", op, len(got), len(want)))
			}
		}
		if off+ln > len(node.Data) {
			node.Data = append(node.Data, make([]byte, off+ln-len(node.Data))...)
		}
		copy(node.Data[off:], data)
	case "rename":
		pm := guard(func() { err = s.fs.Rename(op.Path, op.Path2) })
		if pm != "" {
			add("rename|"+pm, pm)
			return errors.New(pm), viols
		}
		if err == nil {
			src := m.get(op.Path)
			if src == nil {
				add("rename|accepted-impossible", fmt.Sprintf("%s succeeded although the source does not exist", op))
				return nil, viols
			}
			if m.key(op.Path) != m.key(op.Path2) {
				if dst := m.get(op.Path2); dst != nil && dst.Dir {
					add("rename|accepted-onto-directory", fmt.Sprintf("%s replaced a directory", op))
					return nil, viols
				}
				// move the node and everything below it
				for k, v := range m.n {
					if strings.HasPrefix(k, m.key(op.Path)+"/") {
						delete(m.n, k)
						m.n[m.key(op.Path2)+k[len(m.key(op.Path)):]] = v
					}
				}
				delete(m.n, m.key(op.Path))
			}
			src.Name = baseName(op.Path2)
			m.n[m.key(op.Path2)] = src
		}
	case "remove":
		pm := guard(func() { err = s.fs.Remove(op.Path) })
		if pm != "" {
			add("remove|"+pm, pm)
			return errors.New(pm), viols
		}
		if err == nil {
			n := m.get(op.Path)
			if n == nil {
				add("remove|accepted-impossible", fmt.Sprintf("%s succeeded although nothing has that name", op))
				return nil, viols
			}
			if n.Dir && len(m.children(op.Path)) > 0 {
				add("remove|accepted-nonempty-directory", fmt.Sprintf("%s removed a non-empty directory", op))
				return nil, viols
			}
			delete(m.n, m.key(op.Path))
		}
	case "symlink":
		// Path = link name, Path2 = target
		pm := guard(func() { err = s.fs.Symlink(op.Path2, op.Path) })
		if pm != "" {
			add("symlink|"+pm, pm)
			return errors.New(pm), viols
		}
		if err == nil {
			if m.get(op.Path) != nil {
				add("symlink|accepted-over-existing", fmt.Sprintf("%s succeeded although the name exists", op))
				return nil, viols
			}
			if !m.parentOK(op.Path) {
				add("symlink|accepted-impossible", fmt.Sprintf("%s succeeded although the parent directory does not exist", op))
				return nil, viols
			}
			m.n[m.key(op.Path)] = &refNode{Name: baseName(op.Path), Link: op.Path2}
		}
	case "chmod", "chown", "chtimes":
		n := m.get(op.Path)
		var mode uint32
		var uid, gid int64
		var tsec int64
		fmt.Sscanf(op.Len, "%o", &mode)
		if op.Kind == "chown" {
			fmt.Sscanf(op.Len, "%d:%d", &uid, &gid)
		}
		if op.Kind == "chtimes" {
			fmt.Sscanf(op.Len, "%d", &tsec)
		}
		fm := os.FileMode(mode & 0o777)
		if mode&0o4000 != 0 {
			fm |= os.ModeSetuid
		}
		if mode&0o2000 != 0 {
			fm |= os.ModeSetgid
		}
		if mode&0o1000 != 0 {
			fm |= os.ModeSticky
		}
		ct, at, mt := time.Unix(tsec, 0).UTC(), time.Unix(tsec+3600, 500).UTC(), time.Unix(tsec+7200, 999999999).UTC()
		pm := guard(func() {
			switch op.Kind {
			case "chmod":
				err = s.fs.Chmod(op.Path, fm)
			case "chown":
				err = s.fs.Chown(op.Path, int(uid), int(gid))
			default:
				err = s.fs.Chtimes(op.Path, ct, at, mt)
			}
		})
		if pm != "" {
			add(op.Kind+"|"+pm, pm)
			return errors.New(pm), viols
		}
		if err == nil {
			if n == nil {
				add(op.Kind+"|accepted-impossible", fmt.Sprintf("%s succeeded although nothing has that name", op))
				return nil, viols
			}
			if n.Link != "" {
				// attribute calls follow symbolic links (documented); the alphabets only link to existing names or nothing
				if t := m.get(n.Link); t != nil {
					n = t
				} else {
					return nil, viols
				}
			}
			switch op.Kind {
			case "chmod":
				v := uint32(fm)
				n.Mode = &v
			case "chown":
				if uid != -1 {
					u := uid
					n.UID = &u
				}
				if gid != -1 {
					g := gid
					n.GID = &g
				}
			default:
				a, b, c := mt.UnixNano(), at.UnixNano(), ct.UnixNano()
				n.MTime, n.ATime, n.CTime = &a, &b, &c
			}
		}
	case "fillappend":
		// append one block at a time to a single file until the filesystem refuses (uses every last block
		// without running out of inodes or directory slots first)
		for i := 0; i < 200000; i++ {
			e, _ := s.apply(fsOp{Kind: "append", Path: op.Path, Len: "c"})
			if e != nil {
				if live, verr := fsView(s.fs, s.model.caseFold, 4096, 1<<25); verr == nil {
					s.resync(live, op.Path)
				}
				break
			}
		}
		return nil, viols
	case "fillgeo":
		// fill a larger volume to its last cluster with a handful of writes: files of geometrically decreasing size, each
		// size tried until the filesystem refuses it (refusals are part of the sequence)
		n := 0
		for _, ln := range []string{"p40", "p15", "256c", "64c", "16c", "4c", "c"} {
			for k := 0; k < 8; k++ {
				name := fmt.Sprintf("%s%03d", op.Path, n)
				n++
				e, _ := s.apply(fsOp{Kind: "write", Path: name, Off: "0", Len: ln})
				if e != nil {
					if live, verr := fsView(s.fs, s.model.caseFold, 4096, 1<<25); verr == nil {
						s.resync(live, name)
					}
					break
				}
			}
		}
		s.shRefused = nil
		return nil, viols
	case "fragfill":
		// prepared state with fragmented free space: numbered files of op.Len bytes until the filesystem refuses, then
		// every other one is removed, so the largest free run is one such file (plus whatever was too small to use)
		var made []string
		for i := 0; i < 20000; i++ {
			name := fmt.Sprintf("%s%04d", op.Path, i)
			e, _ := s.apply(fsOp{Kind: "write", Path: name, Off: "0", Len: op.Len})
			if e != nil {
				if live, verr := fsView(s.fs, s.model.caseFold, 4096, 1<<25); verr == nil {
					s.resync(live, name)
				}
				if s.model.get(name) != nil {
					_, _ = s.apply(fsOp{Kind: "remove", Path: name})
				}
				break
			}
			made = append(made, name)
		}
		// the loop may have ended for lack of inodes or directory slots rather than of blocks: whatever large free run is left
		// is used up by growing a file that stays, so that the only free space afterwards is the holes
		if len(made) > 0 {
			_, _ = s.apply(fsOp{Kind: "write", Path: made[0], Off: "eof", Len: "p15"})
			_, _ = s.apply(fsOp{Kind: "write", Path: made[0], Off: "eof", Len: "64c"})
			_, _ = s.apply(fsOp{Kind: "write", Path: made[0], Off: "eof", Len: "16c"})
			_, _ = s.apply(fsOp{Kind: "fillappend", Path: made[0]})
		}
		for i := 1; i < len(made); i += 2 {
			if e, _ := s.apply(fsOp{Kind: "remove", Path: made[i]}); e != nil {
				return e, viols
			}
		}
		s.shRefused = nil
		if len(made) < 6 {
			return fmt.Errorf("fragfill made only %d files", len(made)), viols
		}
		return nil, viols
	case "fillsmall", "filldirs":
		// create numbered small files (or directories) until the filesystem refuses; the refusal is the expected end
		for i := 0; i < 20000; i++ {
			name := fmt.Sprintf("%s%04d", op.Path, i)
			var e error
			if op.Kind == "fillsmall" {
				e, _ = s.apply(fsOp{Kind: "write", Path: name, Off: "0", Len: "c+1"})
			} else {
				e, _ = s.apply(fsOp{Kind: "mkdir", Path: name})
			}
			if e != nil {
				if live, verr := fsView(s.fs, s.model.caseFold, 4096, 1<<25); verr == nil {
					s.resync(live, name)
				}
				break
			}
		}
		return nil, viols
	case "readpartial":
		// a read that ends inside a cluster followed by reads to the end (read-only; judged by C01 only)
		n := m.get(op.Path)
		if n == nil || n.Dir {
			return errors.New("no such file in model"), viols
		}
		var got []byte
		var rerr error
		pm := guard(func() {
			f, e := s.fs.OpenFile(op.Path, os.O_RDONLY)
			if e != nil {
				rerr = e
				return
			}
			defer f.Close()
			first := make([]byte, s.cb+s.cb/2+8)
			k, e := f.Read(first)
			got = append(got, first[:k]...)
			buf := make([]byte, 200)
			for e == nil && len(got) < len(n.Data)+4*s.cb {
				k, e = f.Read(buf)
				got = append(got, buf[:k]...)
				if k == 0 && e == nil {
					e = errors.New("Read returned 0, nil")
				}
			}
			if e != io.EOF {
				rerr = e
			}
		})
		if pm != "" {
			add("readpartial|"+pm, pm)
			return nil, viols
		}
		if s.oracle == "model" {
			if rerr != nil {
				add("readpartial|error", fmt.Sprintf("%s: %v", op, rerr))
			} else if string(got) != string(n.Data) {
				add("readpartial|content", fmt.Sprintf("%s: a %d-byte read followed by 200-byte reads returned %d bytes, the file has %d", op, s.cb+s.cb/2+8, len(got), len(n.Data)))
			}
		}
		return nil, viols
	}
	return err, viols
}

func offClass(op fsOp) string {
	if op.Kind == "write" {
		return "@" + op.Off
	}
	return ""
}

// resync replaces the model's entry for path (and below) by what the live view shows.
func (s *fatSys) resync(v map[string]viewNode, paths ...string) {
	m := s.model
	for _, p := range paths {
		if p == "" {
			continue
		}
		k := m.key(p)
		for mk := range m.n {
			if mk == k || strings.HasPrefix(mk, k+"/") {
				delete(m.n, mk)
			}
		}
		for vk, vn := range v {
			if vk == k || strings.HasPrefix(vk, k+"/") {
				m.n[vk] = &refNode{Dir: vn.Dir, Data: append([]byte(nil), vn.Data...), Name: vn.Name, Link: vn.Link}
			}
		}
	}
}

type usedDumper interface {
	VerifUsedClusters() []bool
	DataStart() uint32
	BytesPerCluster() int
}

func (s *fatSys) key() [32]byte {
	h := sha256.New()
	if ud, ok := s.fs.(usedDumper); ok && s.canonFree {
		// Canonical form for the fill/empty/refill scenario: the contents of clusters the FAT marks free are
		// left out of the key. Argument: a free cluster's bytes can only matter if the library exposes them
		// (stale data), and every exposure is itself caught by the content oracle because all written patterns
		// are non-zero and distinct from what the reference expects; everything else (boot area, both FATs,
		// fixed root, every allocated cluster, the in-memory FAT, the reference tree) stays in the key.
		ds, cb := int64(ud.DataStart()), int64(ud.BytesPerCluster())
		d := s.dev.DigestRange(s.cfg.Start, s.cfg.Start+ds)
		h.Write(d[:])
		used := ud.VerifUsedClusters()
		for c := 2; c < len(used); c++ {
			off := ds + int64(c-2)*cb
			if used[c] && off+cb <= s.cfg.Size {
				h.Write(u64(uint64(c)))
				h.Write(s.dev.Peek(s.cfg.Start+off, int(cb)))
			}
		}
	} else {
		d := s.dev.DigestRange(s.cfg.Start, s.cfg.Start+s.cfg.Size)
		h.Write(d[:])
	}
	if td, ok := s.fs.(tableDumper); ok {
		h.Write(td.VerifTableBytes())
	}
	if sd, ok := s.fs.(interface{ VerifStateBytes() []byte }); ok {
		h.Write(sd.VerifStateBytes())
	}
	md := s.model.digest()
	h.Write(md[:])
	if s.reopened {
		// an object built by Read and one built by Create are merged only with their own kind: what the exported in-memory
		// state does not show (where backups go, which fields Read fills in differently) may still differ between them
		h.Write([]byte("lineage:read"))
	}
	if s.held != nil {
		// the open handle caches size, cursor and (FAT) its cluster list: how stale it is belongs to the state
		sz := int64(-1)
		if fi, e := s.held.Stat(); e == nil {
			sz = fi.Size()
		}
		fmt.Fprintf(h, "held|%s|%d|%d", s.heldPath, s.heldStale, sz)
	}
	var o [32]byte
	copy(o[:], h.Sum(nil))
	return o
}

// fatckViols runs the independent structural checker on the raw bytes.
func (s *fatSys) fatckViols(after string) (viols []explore.Viol) {
	res := fatck.Check(s.dev, s.cfg.Start, s.cfg.Size, s.cfg.Type)
	seen := map[string]bool{}
	for _, p := range res.Problems {
		cl := fatck.ProblemClass(p)
		if seen[cl] {
			continue
		}
		seen[cl] = true
		viols = append(viols, explore.Viol{Sig: "fatck|" + cl + "|after=" + after, Msg: fmt.Sprintf("%s after %s: independent FAT reader: %s", s.cfg, after, strings.Join(res.Problems, "; "))})
		break // one signature per state: the first complaint
	}
	return
}

func (s *fatSys) rangeViols(after string) (viols []explore.Viol) {
	if len(s.dev.Outside) > 0 {
		o := s.dev.Outside[0]
		side := "after-end"
		if o.Off < s.cfg.Start {
			side = "before-start"
		}
		viols = append(viols, explore.Viol{Sig: "range|write-outside|" + side + "|" + lastFrame(o.Stack), Msg: fmt.Sprintf("%s after %s: WriteAt(off=%d,len=%d) outside the volume [%d,%d); call path %s", s.cfg, after, o.Off, o.Len, s.cfg.Start, s.cfg.Start+s.cfg.Size, o.Stack)})
	}
	return
}

func lastFrame(st string) string {
	parts := strings.Split(strings.TrimSuffix(st, ";"), ";")
	if len(parts) == 0 {
		return ""
	}
	// frames are innermost first; the first library frame is the writer
	return parts[0]
}

func u64(v uint64) []byte {
	b := make([]byte, 8)
	binary.LittleEndian.PutUint64(b, v)
	return b
}

// opSeed makes the bytes an operation writes a function of the operation itself (not of its position in the
// history), so that histories converge and fill/empty/refill scenarios reach a fixpoint.
func opSeed(op fsOp) int {
	h := 0
	for _, c := range op.Kind + "|" + op.Path + "|" + op.Off + "|" + op.Len {
		h = (h*131 + int(c)) % 100003
	}
	return h
}

// markBadLow marks clusters 3..n as bad (0x0FFFFFF7) in both on-disk FAT copies of a FAT32 volume and re-opens it.
func (s *fatSys) markBadLow(n int) error {
	bs := s.dev.Peek(s.cfg.Start, 512)
	bps := int64(binary.LittleEndian.Uint16(bs[11:13]))
	rsv := int64(binary.LittleEndian.Uint16(bs[14:16]))
	fatsz := int64(binary.LittleEndian.Uint32(bs[36:40]))
	buf := make([]byte, 4*(n-2))
	for i := 0; i < n-2; i++ {
		binary.LittleEndian.PutUint32(buf[4*i:], 0x0FFFFFF7)
	}
	if int64(4*(n+1)) > fatsz*bps {
		return fmt.Errorf("FAT too small to mark %d clusters", n)
	}
	for k := int64(0); k < 2; k++ {
		s.dev.Poke(buf, s.cfg.Start+rsv*bps+k*fatsz*bps+12)
	}
	fs, err := fatRead(s.cfg, s.dev, false)
	if err != nil {
		return err
	}
	s.fs = fs
	return nil
}
