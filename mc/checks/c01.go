package checks

import (
	"verifmc/ev"
)

func init() {
	register("C01", "model_checking", C01)
	register("C08", "model_checking", C08)
	Replayers["C01"] = func(raw []byte) string {
		return replayFatHistory(raw, "model", func() []*fatScen { return fatAllScens("model", false, 9) })
	}
	Replayers["C08"] = func(raw []byte) string {
		return replayFatHistory(raw, "fatck", func() []*fatScen { return fatAllScens("fatck", false, 9) })
	}
}

func fatConfigs(quick bool) []fatCfg {
	cs := []fatCfg{
		{Type: 12, Size: 64 << 10, Start: 0},
		{Type: 16, Size: 4400 << 10, Start: 1 << 20},
		{Type: 32, Size: 64 << 10, Start: 512},
	}
	if !quick {
		cs = append(cs,
			fatCfg{Type: 12, Size: 4<<20 + 512, Start: 1 << 20},
			fatCfg{Type: 16, Size: 33 << 20, Start: 0},
			fatCfg{Type: 32, Size: 1 << 20, Start: 0},
			fatCfg{Type: 32, Size: 261 << 20, Start: 1 << 20},
			fatCfg{Type: 32, Size: 1 << 20, Start: 4096, Blocksize: 4096},
		)
	}
	return cs
}

func fatAllScens(oracle string, quick bool, depth int) []*fatScen {
	var out []*fatScen
	for _, c := range fatConfigs(quick) {
		out = append(out, fatScenarios(c, oracle, depth, quick)...)
	}
	// fill / empty / refill to fixpoint on the small volumes
	fd := depth + 3
	if depth >= 9 {
		fd = 64
	}
	// (sizes that are not a whole number of sectors/clusters: the last, partial cluster must never be handed out)
	out = append(out, fatFillScenario(fatCfg{Type: 12, Size: 64<<10 + 300}, oracle, fd), fatFillScenario(fatCfg{Type: 32, Size: 64<<10 + 300, Start: 512}, oracle, fd))
	if !quick {
		out = append(out, fatFillScenario(fatCfg{Type: 16, Size: 4400 << 10, Start: 1 << 20}, oracle, fd))
	}
	hd := depth
	if hd > 3 {
		hd = 3
	}
	out = append(out, fatHighClusterScenario(oracle, hd), fatNearMaxScenario(oracle, hd))
	for _, c := range []fatCfg{{Type: 12, Size: 4<<20 + 512, Start: 512}, {Type: 16, Size: 4400 << 10, Start: 0}, {Type: 32, Size: 1 << 20, Start: 1 << 20}} {
		out = append(out, fatBigChainScenario(c, oracle, hd))
	}
	out = append(out, fatRootFullScenario(fatCfg{Type: 12, Size: 64 << 10}, oracle, depth+1))
	for _, c := range []fatCfg{{Type: 12, Size: 64 << 10, Start: 512}, {Type: 32, Size: 64<<10 + 300, Start: 0}} {
		out = append(out, fatDirFullScenario(c, oracle, hd))
	}
	return out
}

func C01(r *ev.Run) {
	depth := 3
	if !r.Quick() {
		depth = 4
	}
	scens := fatAllScens("model", r.Quick(), depth)
	t := runFatScens(r, scens, true)
	t.write(r)
	r.Assume("reference model: a plain case-insensitive tree of named byte strings; acceptance follows the implementation; after a refused call only the call's own target is re-synchronised")
	r.Assume("state key = SHA-256(volume bytes, in-memory FAT, reference tree): states are merged only when disk, cache and model agree")
}

// fatSweepConfigs: volume sizes across every cluster-size table boundary of the three Create functions.
func fatSweepConfigs(quick bool) []fatCfg {
	const K, M, G = int64(1) << 10, int64(1) << 20, int64(1) << 30
	var cs []fatCfg
	for _, sz := range []int64{64 * K, 512 * K, 512*K + 512, 2 * M, 2*M + 512, 4 * M, 4*M + 512, 8*M - 512, 8 * M, 16 * M, 16*M + 512} {
		cs = append(cs, fatCfg{Type: 12, Size: sz, Start: 512})
	}
	for _, sz := range []int64{4400 * K, 32 * M, 32*M + 512, 128 * M, 128*M + 512, 256 * M, 256*M + 512, 512*M + 512, G + 512, 2 * G} {
		cs = append(cs, fatCfg{Type: 16, Size: sz, Start: 1 << 20})
	}
	for _, sz := range []int64{64 * K, 64*K + 300, M, 260 * M, 260*M + 512, 8 * G, 8*G + 4096, 16*G + 8192, 32*G + 16384} {
		if quick && sz > 8*G {
			continue
		}
		cs = append(cs, fatCfg{Type: 32, Size: sz, Start: 4<<30 + 512})
	}
	for _, sz := range []int64{M, 261 * M, 8*G + 4096} {
		cs = append(cs, fatCfg{Type: 32, Size: sz, Start: 4096, Blocksize: 4096})
	}
	return cs
}

func C08(r *ev.Run) {
	depth := 3
	if !r.Quick() {
		depth = 4
	}
	scens := fatAllScens("fatck", r.Quick(), depth)
	for _, c := range fatConfigs(true) {
		scens = append(scens, fatAliasScenario(c, "fatck", depth))
		scens = append(scens, heldHandleScenario(c, "fatck", depth))
	}
	// Create-only sweep (plus a depth-1 alphabet) across the cluster-size table boundaries
	for _, c := range fatSweepConfigs(r.Quick()) {
		scens = append(scens, &fatScen{Name: "sweep", Cfg: c, Oracle: "fatck", Depth: 2, Letters: []fsOp{
			{Kind: "mkdir", Path: "D/E"}, {Kind: "write", Path: "D/file-long-name.bin", Off: "cmid", Len: "2c+1"}, {Kind: "write", Path: "R.BIN", Off: "0", Len: "c+1"},
			{Kind: "remove", Path: "R.BIN"}, {Kind: "trunc", Path: "R.BIN"}, {Kind: "reopen"}}})
	}
	t := runFatScens(r, scens, false)
	t.write(r)
	r.Assume("fatck (independent checker written from the Microsoft FAT specification) defines structural soundness")
}
