package checks

import (
	"encoding/json"
	"fmt"
	"strings"

	diskfs "github.com/diskfs/go-diskfs"
	"github.com/diskfs/go-diskfs/partition"
	"github.com/diskfs/go-diskfs/partition/gpt"
	"github.com/diskfs/go-diskfs/partition/mbr"

	"verifmc/ev"
	"verifmc/memdev"
	"verifmc/oracle/gptck"
)

func init() {
	register("C02", "exploration", C02)
	Replayers["C02"] = func(raw []byte) string {
		if out, ok := replayForeign(raw, "C02"); ok {
			return out
		}
		var c tblCase
		if err := json.Unmarshal(raw, &c); err != nil {
			return "bad case: " + err.Error()
		}
		sig, msg, _ := runTblCase(&c)
		if sig == "" {
			return "holds"
		}
		return sig + ": " + msg
	}
}

// ---- input domain ----------------------------------------------------------------------------------

type gptPartIn struct {
	Index    int    `json:"index"`
	Spelling string `json:"spelling"` // "se" start+end, "ss" start+size, "ses" all three
	Geo      string `json:"geo"`      // first | mid | last | span
	Name     string `json:"name"`
	Attr     uint64 `json:"attr"`
	Type     string `json:"type"`
	GUID     string `json:"guid"`
}

type mbrPartIn struct {
	Index    int    `json:"index"`
	Type     byte   `json:"type"`
	Bootable bool   `json:"bootable"`
	Start    uint32 `json:"start"`
	Size     uint32 `json:"size"`
}

type tblCase struct {
	Kind     string      `json:"kind"` // gpt | mbr
	DiskSize int64       `json:"disk_size"`
	LSS      int         `json:"lss"`
	PSS      int         `json:"pss,omitempty"` // physical sector size; 0 = same as logical
	PMBR     bool        `json:"pmbr"`
	DiskGUID string      `json:"disk_guid"`
	Over     string      `json:"over"` // "", "gpt", "mbr", "noise": what is on the disk before
	GPT      []gptPartIn `json:"gpt,omitempty"`
	MBR      []mbrPartIn `json:"mbr,omitempty"`
}

var (
	nonBMP18 = strings.Repeat("\U0001F4BE", 18) // 36 UTF-16 units
	nonBMP36 = strings.Repeat("\U0001F4BE", 36) // 72 units: must be refused
	// (names whose UTF-16 form contains a zero byte pair that is NOT a terminator: a unit below 0x0100 followed by a unit whose
	// low byte is zero - U+4E00, U+0100, a high surrogate D800)
	gptNames = []string{"", "a", strings.Repeat("x", 36), nonBMP18, "mixé\U0001F4BEz", nonBMP36, strings.Repeat("x", 37), "data-\u4e00", "a\u0100b\U00010000c"}
	gptAttrs = []uint64{0, 1, 1 << 63, ^uint64(0)}
	gptTypes = []string{string(gpt.EFISystemPartition), string(gpt.LinuxFilesystem), "12345678-9ABC-DEF0-1234-56789ABCDEF0", "0fc63daf-8483-4772-8e79-3d69d8477de4"}
)

const fixedDiskGUID = "A1B2C3D4-E5F6-4711-8899-AABBCCDDEEFF"

func partGUID(i int) string { return fmt.Sprintf("0A0B0C0D-1E1F-4A2B-8C3D-0000000000%02X", i&0xff) }

func gptGeometry(diskSize int64, lss int) (first, last uint64) {
	n := uint64(diskSize / int64(lss))
	ps := uint64(128*128) / uint64(lss)
	return 2 + ps, n - 1 - ps - 1
}

func geoRange(geo string, first, last uint64) (s, e uint64) {
	switch geo {
	case "first":
		return first, first
	case "mid":
		m := first + (last-first)/2
		e = m + 2
		if e > last {
			e = last
		}
		return m, e
	case "last":
		return last, last
	default:
		return first, last
	}
}

func buildGPT(c *tblCase) *gpt.Table {
	pss := c.PSS
	if pss == 0 {
		pss = c.LSS
	}
	t := &gpt.Table{LogicalSectorSize: c.LSS, PhysicalSectorSize: pss, ProtectiveMBR: c.PMBR, GUID: c.DiskGUID}
	first, last := gptGeometry(c.DiskSize, c.LSS)
	for _, p := range c.GPT {
		s, e := geoRange(p.Geo, first, last)
		gp := &gpt.Partition{Index: p.Index, Start: s, Type: gpt.Type(p.Type), Name: p.Name, GUID: p.GUID, Attributes: p.Attr}
		switch p.Spelling {
		case "se":
			gp.End = e
		case "ss":
			gp.Size = (e - s + 1) * uint64(c.LSS)
		default:
			gp.End = e
			gp.Size = (e - s + 1) * uint64(c.LSS)
		}
		t.Partitions = append(t.Partitions, gp)
	}
	return t
}

type wantPart struct {
	Index      int
	Start, End uint64
	Size       uint64
	Type, Name string
	GUID       string
	Attr       uint64
}

func utf16Len(s string) int {
	n := 0
	for _, r := range s {
		if r >= 0x10000 {
			n += 2
		} else {
			n++
		}
	}
	return n
}

// mustRefuseGPT: inputs the format cannot represent.
func mustRefuseGPT(c *tblCase) string {
	seen := map[int]bool{}
	for _, p := range c.GPT {
		if p.Index < 1 || p.Index > 128 {
			return "index out of 1..128"
		}
		if seen[p.Index] {
			return "duplicate index"
		}
		seen[p.Index] = true
		if utf16Len(p.Name) > 36 {
			return "name longer than 36 UTF-16 units"
		}
	}
	return ""
}

// ---- execution + oracle ----------------------------------------------------------------------------

func prefill(d *memdev.Dev, c *tblCase) {
	// boot code area and a data pattern where partitions live, to detect collateral writes (also used by C03)
	boot := make([]byte, 440)
	for i := range boot {
		boot[i] = byte(0xB0 + i%7)
	}
	d.Poke(boot, 0)
	switch c.Over {
	case "gpt", "gpt-rmw":
		old := &gpt.Table{LogicalSectorSize: c.LSS, PhysicalSectorSize: c.LSS, ProtectiveMBR: true, GUID: "11111111-2222-4333-8444-555555555555"}
		first, last := gptGeometry(c.DiskSize, c.LSS)
		for i := 1; i <= 5; i++ {
			old.Partitions = append(old.Partitions, &gpt.Partition{Index: i * 3, Start: first, End: last, Type: gpt.LinuxFilesystem, Name: fmt.Sprintf("old%d", i), GUID: partGUID(100 + i)})
		}
		_ = old.Write(d, c.DiskSize)
	case "mbr":
		old := &mbr.Table{LogicalSectorSize: c.LSS, PhysicalSectorSize: c.LSS, Partitions: []*mbr.Partition{
			{Type: mbr.Linux, Start: 3, Size: 5, Bootable: true}, {Type: mbr.Fat32LBA, Start: 9, Size: 1}, {Type: mbr.Linux, Start: 11, Size: 1}, {Type: mbr.Linux, Start: 13, Size: 1}}}
		_ = old.Write(d, c.DiskSize)
	case "noise":
		b := make([]byte, 512)
		for i := range b {
			b[i] = byte(i*31 + 7)
		}
		for _, off := range []int64{int64(c.LSS), 2 * int64(c.LSS), c.DiskSize - int64(c.LSS)} {
			d.Poke(b, off)
		}
		d.Poke(b[:66], 446)
	}
}

// runTblCase executes one table and returns ("", "", outcome) when the property holds for it.
func runTblCase(c *tblCase) (sig, msg, outcome string) {
	d := memdev.New(c.DiskSize)
	prefill(d, c)
	if c.Kind == "gpt" {
		return runGPTCase(c, d)
	}
	return runMBRCase(c, d)
}

func runGPTCase(c *tblCase, d *memdev.Dev) (sig, msg, outcome string) {
	t := buildGPT(c)
	switch c.Over {
	case "gpt-rmw":
		// read - modify - write on ONE table object: the table found on the disk is read, its partition list and
		// identity are replaced, and that same object is written back
		var old *gpt.Table
		var rerr error
		if pm := guard(func() { old, rerr = gpt.Read(d, c.LSS, c.LSS) }); pm == "" && rerr == nil && old != nil {
			old.Partitions = t.Partitions
			old.ProtectiveMBR = t.ProtectiveMBR
			if t.GUID != "" {
				old.GUID = t.GUID
			}
			t = old
		}
	case "gpt-twice":
		// the same object written twice with a different partition list
		first, last := gptGeometry(c.DiskSize, c.LSS)
		keep := t.Partitions
		t.Partitions = []*gpt.Partition{{Index: 77, Start: first, End: last, Type: gpt.LinuxFilesystem, Name: "first-version", GUID: partGUID(77)}}
		if pm := guard(func() { _ = t.Write(d, c.DiskSize) }); pm != "" {
			return "gpt-write-panic|" + pm, "Table.Write panicked: " + pm, "panic"
		}
		t.Partitions = keep
	}
	var werr error
	if pm := guard(func() { werr = t.Write(d, c.DiskSize) }); pm != "" {
		return "gpt-write-panic|" + pm, "Table.Write neither accepted nor refused the table: " + pm, "panic"
	}
	refuse := mustRefuseGPT(c)
	if werr != nil {
		return "", "", "refused:" + errClass(werr)
	}
	if refuse != "" {
		return "gpt-accepted-unrepresentable|" + refuse, "Write accepted a table that cannot be represented (" + refuse + ") so it cannot read back as written", "bad-accept"
	}
	// expected
	first, last := gptGeometry(c.DiskSize, c.LSS)
	var want []wantPart
	for _, p := range c.GPT {
		if p.Type == string(gpt.Unused) {
			continue
		}
		s, e := geoRange(p.Geo, first, last)
		want = append(want, wantPart{p.Index, s, e, (e - s + 1) * uint64(c.LSS), strings.ToUpper(p.Type), p.Name, strings.ToUpper(p.GUID), p.Attr})
	}
	// sort by index: on-disk order
	for i := range want {
		for j := i + 1; j < len(want); j++ {
			if want[j].Index < want[i].Index {
				want[i], want[j] = want[j], want[i]
			}
		}
	}
	cmp := func(who string, parts []*gpt.Partition, guid string) (string, string) {
		if !strings.EqualFold(guid, c.DiskGUID) && c.DiskGUID != "" {
			return "gpt-readback|" + who + "|disk-guid", fmt.Sprintf("%s: disk GUID %s, written %s", who, guid, c.DiskGUID)
		}
		if len(parts) != len(want) {
			return "gpt-readback|" + who + "|count", fmt.Sprintf("%s: %d partitions read back, %d written", who, len(parts), len(want))
		}
		for i, w := range want {
			g := parts[i]
			field := ""
			switch {
			case g.Index != w.Index:
				field = "index"
			case g.Start != w.Start:
				field = "start"
			case g.End != w.End:
				field = "end"
			case g.Size != w.Size:
				field = "size"
			case !strings.EqualFold(string(g.Type), w.Type):
				field = "type"
			case g.Name != w.Name:
				field = "name"
			case w.GUID != "" && !strings.EqualFold(g.GUID, w.GUID):
				field = "guid"
			case g.Attributes != w.Attr:
				field = "attributes"
			}
			if field != "" {
				return "gpt-readback|" + who + "|" + field, fmt.Sprintf("%s: partition %d field %s: got %+v want %+v", who, w.Index, field, *g, w)
			}
		}
		return "", ""
	}
	// (2a) gpt.Read from the bytes
	rd := d.Clone()
	var rt *gpt.Table
	var rerr error
	if pm := guard(func() { rt, rerr = gpt.Read(be(rd, true), c.LSS, c.LSS) }); pm != "" {
		return "gpt-read-panic|" + pm, pm, "panic"
	}
	if rerr != nil {
		return "gpt-readback|gpt.Read|error", "gpt.Read of an accepted table failed: " + rerr.Error(), "readerr"
	}
	if rt.RecoveredFromBackup {
		return "gpt-readback|gpt.Read|from-backup", "a completed Write was read from the backup copy", "backup"
	}
	if s, m := cmp("gpt.Read", rt.Partitions, rt.GUID); s != "" {
		return s, m, "mismatch"
	}
	// (2b) partition.Read + Disk.GetPartition
	pt, perr := partition.Read(be(rd, true), c.LSS, c.LSS)
	if perr != nil {
		return "gpt-readback|partition.Read|error", perr.Error(), "readerr"
	}
	if pt.Type() != "gpt" {
		return "gpt-readback|partition.Read|type", "partition.Read reports " + pt.Type(), "mismatch"
	}
	if s, m := cmp("partition.Read", pt.(*gpt.Table).Partitions, pt.(*gpt.Table).GUID); s != "" {
		return s, m, "mismatch"
	}
	ss := diskfs.SectorSize512
	if c.LSS == 4096 {
		ss = diskfs.SectorSize4k
	}
	dk, derr := diskfs.OpenBackend(be(rd, true), diskfs.WithSectorSize(ss))
	if derr != nil {
		return "gpt-readback|OpenBackend|error", derr.Error(), "readerr"
	}
	for _, w := range want {
		p, err := dk.GetPartition(w.Index)
		if err != nil {
			return "gpt-readback|GetPartition|missing", fmt.Sprintf("GetPartition(%d): %v", w.Index, err), "mismatch"
		}
		if p.GetStart() != int64(w.Start)*int64(c.LSS) || p.GetSize() != int64(w.Size) {
			return "gpt-readback|GetPartition|range", fmt.Sprintf("GetPartition(%d) range [%d,+%d) want [%d,+%d)", w.Index, p.GetStart(), p.GetSize(), int64(w.Start)*int64(c.LSS), w.Size), "mismatch"
		}
	}
	// (3) independent parser
	h, bad := gptck.CheckDisk(rd, c.LSS, c.DiskSize, c.PMBR)
	if len(bad) > 0 {
		return "gpt-ondisk|" + firstWords(bad[0]), "independent GPT reader: " + strings.Join(bad, "; "), "invalid"
	}
	if len(h.Entries) != len(want) {
		return "gpt-ondisk|entry-count", fmt.Sprintf("independent reader finds %d entries, %d written", len(h.Entries), len(want)), "invalid"
	}
	for i, w := range want {
		e := h.Entries[i]
		if e.Index != w.Index || e.First != w.Start || e.Last != w.End || e.TypeGUID != w.Type || e.Name != w.Name || e.Attributes != w.Attr || (w.GUID != "" && e.GUID != w.GUID) {
			return "gpt-ondisk|entry-content", fmt.Sprintf("independent reader: slot %d = %+v, want %+v", e.Index, e, w), "invalid"
		}
	}
	if c.DiskGUID != "" && h.DiskGUID != strings.ToUpper(c.DiskGUID) {
		return "gpt-ondisk|disk-guid", "independent reader: disk GUID " + h.DiskGUID, "invalid"
	}
	return "", "", "ok"
}

func firstWords(s string) string {
	var sb strings.Builder
	for _, c := range s {
		if c >= '0' && c <= '9' {
			continue
		}
		sb.WriteRune(c)
		if sb.Len() > 40 {
			break
		}
	}
	return strings.TrimSpace(sb.String())
}

func runMBRCase(c *tblCase, d *memdev.Dev) (sig, msg, outcome string) {
	t := &mbr.Table{LogicalSectorSize: c.LSS, PhysicalSectorSize: c.LSS}
	for _, p := range c.MBR {
		t.Partitions = append(t.Partitions, &mbr.Partition{Index: p.Index, Type: mbr.Type(p.Type), Bootable: p.Bootable, Start: p.Start, Size: p.Size})
	}
	var werr error
	if pm := guard(func() { werr = t.Write(d, c.DiskSize) }); pm != "" {
		return "mbr-write-panic|" + pm, pm, "panic"
	}
	if werr != nil {
		return "", "", "refused:" + errClass(werr)
	}
	rd := d.Clone()
	rt, rerr := mbr.Read(be(rd, true), c.LSS, c.LSS)
	if rerr != nil {
		return "mbr-readback|mbr.Read|error", rerr.Error(), "readerr"
	}
	// An MBR written over a disk that still carries a valid GPT keeps reading as GPT through the probing
	// entry points (Write may only touch the MBR's own bytes, see C03); only mbr.Read is judged then.
	probing := c.Over != "gpt"
	if probing {
		pt, perr := partition.Read(be(rd, true), c.LSS, c.LSS)
		if perr != nil || pt.Type() != "mbr" {
			return "mbr-readback|partition.Read|type", fmt.Sprintf("partition.Read: %v %v", pt, perr), "mismatch"
		}
	}
	ents, err := gptck.ParseMBR(rd)
	if err != nil {
		return "mbr-ondisk|signature", err.Error(), "invalid"
	}
	ss := diskfs.SectorSize512
	if c.LSS == 4096 {
		ss = diskfs.SectorSize4k
	}
	dk, derr := diskfs.OpenBackend(be(rd, true), diskfs.WithSectorSize(ss))
	if derr != nil {
		return "mbr-readback|OpenBackend|error", derr.Error(), "readerr"
	}
	for i := 0; i < 4; i++ {
		var w mbrPartIn
		empty := i >= len(c.MBR)
		if !empty {
			w = c.MBR[i]
		}
		e := ents[i]
		wantBoot := byte(0)
		if w.Bootable {
			wantBoot = 0x80
		}
		if e.Boot != wantBoot || e.Type != w.Type || e.Start != w.Start || e.Sectors != w.Size {
			return "mbr-ondisk|slot-content", fmt.Sprintf("independent reader: slot %d = %+v want %+v", i+1, e, w), "invalid"
		}
		if len(rt.Partitions) != 4 {
			return "mbr-readback|mbr.Read|count", fmt.Sprintf("%d slots", len(rt.Partitions)), "mismatch"
		}
		g := rt.Partitions[i]
		if g.Index != i+1 || g.Bootable != w.Bootable || byte(g.Type) != w.Type || g.Start != w.Start || g.Size != w.Size {
			return "mbr-readback|mbr.Read|field", fmt.Sprintf("slot %d read back %+v want %+v", i+1, *g, w), "mismatch"
		}
		if !empty && probing {
			p, err := dk.GetPartition(i + 1)
			if err != nil {
				return "mbr-readback|GetPartition|missing", err.Error(), "mismatch"
			}
			if p.GetStart() != int64(w.Start)*int64(c.LSS) || p.GetSize() != int64(w.Size)*int64(c.LSS) {
				return fmt.Sprintf("mbr-readback|GetPartition|range|lss=%d", c.LSS), fmt.Sprintf("GetPartition(%d) = [%d,+%d) want [%d,+%d)", i+1, p.GetStart(), p.GetSize(), int64(w.Start)*int64(c.LSS), int64(w.Size)*int64(c.LSS)), "mismatch"
			}
		}
	}
	return "", "", "ok"
}

// ---- enumeration -----------------------------------------------------------------------------------

func gptDisks(quick bool) (out []tblCase) {
	for _, lss := range []int{512, 4096} {
		minSectors := int64(2 + 2*(128*128/lss) + 1 + 1)
		sizes := []int64{minSectors * int64(lss), 10 << 20, 2<<40 + 1<<20, 3<<20 + 777} // the last one is not a whole number of sectors
		for _, sz := range sizes {
			for _, pm := range []bool{true, false} {
				if quick && (!pm && sz != 10<<20 && sz != 3<<20+777) {
					continue
				}
				out = append(out, tblCase{Kind: "gpt", DiskSize: sz, LSS: lss, PMBR: pm, DiskGUID: fixedDiskGUID})
				if pm && sz == 10<<20 {
					// physical sector size different from the logical one (512e / 4Kn-on-512 devices)
					out = append(out, tblCase{Kind: "gpt", DiskSize: sz, LSS: lss, PSS: 4096 * 512 / lss, PMBR: pm, DiskGUID: fixedDiskGUID})
				}
			}
		}
	}
	return
}

func enumC02(quick bool) []tblCase {
	var cases []tblCase
	idxs := []int{1, 2, 5, 128, 0, 129}
	spells := []string{"se", "ss", "ses"}
	geos := []string{"first", "mid", "last", "span"}
	for _, dk := range gptDisks(quick) {
		// empty table
		e := dk
		cases = append(cases, e)
		// single-partition tables: full cross product (quick: pairwise-reduced on attrs/types)
		for _, ix := range idxs {
			for _, sp := range spells {
				for _, g := range geos {
					for ni, nm := range gptNames {
						for ai, at := range gptAttrs {
							for ti, ty := range gptTypes {
								if quick && (ai+ti+ni)%4 != 0 {
									continue
								}
								c := dk
								c.GPT = []gptPartIn{{ix, sp, g, nm, at, ty, partGUID(ix)}}
								cases = append(cases, c)
							}
						}
					}
				}
			}
		}
		// multi-partition tables: index vectors (sparse, unordered, duplicate) x geometry rotation
		ivs := [][]int{{1, 2}, {2, 1}, {5, 1}, {128, 1}, {1, 1}, {1, 2, 3}, {3, 1, 2}, {128, 5, 2}, {2, 5, 2}, {1, 2, 3, 4}, {4, 3, 2, 1}, {9, 7, 100, 1}}
		for vi, iv := range ivs {
			for rot := 0; rot < 4; rot++ {
				for _, sp := range spells {
					if quick && (vi+rot)%2 != 0 {
						continue
					}
					c := dk
					for k, ix := range iv {
						c.GPT = append(c.GPT, gptPartIn{ix, sp, geos[(k+rot)%4], gptNames[(k+rot+1)%5], gptAttrs[(k+rot)%4], gptTypes[(k+vi)%4], partGUID(ix*7 + k)})
					}
					cases = append(cases, c)
				}
			}
		}
		// 128-entry and 40-entry tables, ascending and descending
		for _, n := range []int{40, 128} {
			for _, desc := range []bool{false, true} {
				c := dk
				for k := 0; k < n; k++ {
					ix := k + 1
					if desc {
						ix = n - k
					}
					c.GPT = append(c.GPT, gptPartIn{ix, spells[k%3], geos[k%4], fmt.Sprintf("p%d", ix), gptAttrs[k%4], gptTypes[k%4], partGUID(ix)})
				}
				cases = append(cases, c)
			}
		}
		// an unused-type entry among used ones, auto-generated GUIDs, rewrite over existing tables
		c := dk
		c.GPT = []gptPartIn{{1, "se", "first", "keep", 0, gptTypes[1], partGUID(1)}, {2, "se", "mid", "unused", 0, string(gpt.Unused), partGUID(2)}, {3, "ss", "last", "z", 1, gptTypes[0], ""}}
		cases = append(cases, c)
		for _, over := range []string{"gpt", "mbr", "noise", "gpt-rmw", "gpt-twice"} {
			for _, n := range []int{0, 1, 3} {
				c := dk
				c.Over = over
				for k := 0; k < n; k++ {
					c.GPT = append(c.GPT, gptPartIn{k*2 + 1, spells[k%3], geos[(k+1)%4], fmt.Sprintf("new%d", k), gptAttrs[k%4], gptTypes[k%4], partGUID(k + 50)})
				}
				cases = append(cases, c)
			}
		}
		ag := dk
		ag.DiskGUID = ""
		ag.GPT = []gptPartIn{{1, "se", "span", "auto", 0, gptTypes[1], ""}}
		cases = append(cases, ag)
	}
	// MBR
	types := []byte{0x00, 0x0B, 0x83, 0xEE, 0xFF}
	vals := []uint32{1, 2048, 1 << 31, 1<<32 - 1}
	for _, lss := range []int{512, 4096} {
		for _, dsz := range []int64{1 << 20, 2<<40 + 1<<20} {
			if quick && dsz != 1<<20 {
				continue
			}
			base := tblCase{Kind: "mbr", DiskSize: dsz, LSS: lss}
			cases = append(cases, base)
			// single entry: full cross product
			for _, ty := range types {
				for _, bo := range []bool{false, true} {
					for _, st := range vals {
						for _, sz := range vals {
							for _, ix := range []int{0, 1} {
								c := base
								c.MBR = []mbrPartIn{{ix, ty, bo, st, sz}}
								cases = append(cases, c)
							}
						}
					}
				}
			}
			// 2..4 entries
			for n := 2; n <= 4; n++ {
				for rot := 0; rot < 5; rot++ {
					for _, over := range []string{"", "gpt", "mbr"} {
						if quick && over != "" && rot > 0 {
							continue
						}
						c := base
						c.Over = over
						for k := 0; k < n; k++ {
							c.MBR = append(c.MBR, mbrPartIn{k + 1, types[(k+rot)%5], (k+rot)%3 == 0, vals[(k+rot)%4], vals[(k+rot+1)%4]})
						}
						cases = append(cases, c)
					}
				}
			}
		}
	}
	return cases
}

func C02(r *ev.Run) {
	cases := enumC02(r.Quick())
	outcomes := newDistinct()
	accepted := newDistinct()
	done := parallel(len(cases), r.OutOfTime, func(i int) {
		c := &cases[i]
		sig, msg, out := runTblCase(c)
		outcomes.add(out)
		if out == "ok" {
			b, _ := json.Marshal(c)
			accepted.add(string(b))
		}
		if sig != "" {
			r.Report(sig, msg, c)
		}
		if i%(len(cases)/6+1) == 0 {
			r.Sample(c)
		}
	})
	// tables written by other tools (entry arrays of 1..256 slots, first usable sector directly behind a short array) taken
	// through read - modify - write
	fcases := enumForeign(r.Quick())
	fout := newDistinct()
	fdone := parallel(len(fcases), r.OutOfTime, func(i int) {
		c := &fcases[i]
		res := runForeignCase(c)
		fout.add(res.Outcome)
		outcomes.add("foreign:" + res.Outcome)
		if res.Outcome == "infra" {
			r.Report("c02|infra|foreign-table", res.InfraMsg, c)
		}
		if res.Outcome == "ok" {
			b, _ := json.Marshal(c)
			accepted.add(string(b))
		}
		if res.C02Sig != "" {
			r.Report(res.C02Sig, res.C02Msg, map[string]any{"foreign": c})
		}
	})
	r.Set("foreign_table_cases", int64(fdone))
	r.Set("foreign_table_outcomes", fout.snapshot())
	done += fdone
	r.Set("evaluations", int64(done))
	r.Set("distinct_nontrivial", int64(accepted.n()))
	r.Set("distinct_outcomes", outcomes.snapshot())
	r.Set("rule", "[foreign tables: GPTs built byte by byte with 1..256 entry slots x 512/4096-byte sectors x first usable sector directly behind the array or at the 16-KiB mark x 0/1/3 used slots, read by the library, modified (none/rename/add/drop) and written back; judged by the independent parser and a re-read] full cross product of GPT tables (0-4, 40, 128 entries; index in {1,2,5,128,0,129} incl. sparse/unordered/duplicate vectors; 3 start/end/size spellings; geometry first/mid/last usable LBA and spanning; 7 names incl. 36 UTF-16 units of non-BMP runes and two over-long ones; 4 attribute patterns; 4 type GUIDs; disks minimum/10MiB/2TiB+1MiB sparse; 512/4096 logical sectors; protective MBR on/off; rewrite over an existing GPT/MBR/noise) and MBR tables (0-4 entries; type in {00,0B,83,EE,FF}; bootable; start,size in {1,2048,2^31,2^32-1}); every case executed on the real Table.Write; non-trivial = distinct tables that Write accepted and that were compared end to end (gpt.Read/mbr.Read, partition.Read, Disk.GetPartition, independent on-disk parser)")
	r.Set("exhaustive", done == len(cases)+len(fcases))
	r.Assume("independent parser gptck written from UEFI spec ch.5 is the definition of a valid on-disk GPT/MBR")
}
