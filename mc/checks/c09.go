package checks

import (
	"encoding/json"
	"fmt"
	"sort"
	"strings"

	"github.com/diskfs/go-diskfs/disk"
	"github.com/diskfs/go-diskfs/partition"
	"github.com/diskfs/go-diskfs/partition/gpt"

	"verifmc/ev"
	"verifmc/memdev"
)

func init() {
	register("C09", "fault_enumeration", C09)
	Replayers["C09"] = func(raw []byte) string {
		var c crashCase
		if err := json.Unmarshal(raw, &c); err != nil {
			return "bad case: " + err.Error()
		}
		res := runCrashPair(&c.Pair, nil, &c)
		if res == "" {
			return "holds"
		}
		return res
	}
}

type tblShape struct {
	Name  string `json:"name"`
	N     int    `json:"n"`     // number of partitions; -1 = blank disk (no table)
	Alt   bool   `json:"alt"`   // other geometry / names / types
	GUID2 bool   `json:"guid2"` // other disk GUID
	// Foreign > 0 (old tables only): the disk was partitioned by another tool - an entry array of that many slots (three of them
	// used), first usable sector directly behind it; built byte by byte (gptcraft.go), not by the library
	Foreign int `json:"foreign_slots,omitempty"`
}

type crashPair struct {
	Old, New tblShape
	LSS      int   `json:"lss"`
	DiskSize int64 `json:"disk_size"`
	PMBR     bool  `json:"pmbr"`
	// Via: how the table object that is written came to be. "" = built by the caller; "rmw" = read from the disk (old),
	// partition list and identity replaced, written back; "recovered" = before that, the primary header of old was
	// damaged, the table was read through the backup fallback and written back as it was (the documented repair)
	Via string `json:"via,omitempty"`
}

// crashCase identifies one crash state of one pair for replay.
type crashCase struct {
	Pair    crashPair `json:"pair"`
	Prefix  int       `json:"prefix_events"` // number of log events issued before the cut
	Applied []int     `json:"applied"`       // indices into the pending-sector list of that prefix that persisted
	Pending []string  `json:"pending_desc"`
}

func shapeTable(s tblShape, lss int, diskSize int64, pmbr bool) *gpt.Table {
	if s.N < 0 {
		return nil
	}
	g := fixedDiskGUID
	if s.GUID2 {
		g = "99999999-8888-4777-8666-555544443333"
	}
	t := &gpt.Table{LogicalSectorSize: lss, PhysicalSectorSize: lss, ProtectiveMBR: pmbr, GUID: g}
	first, last := gptGeometry(diskSize, lss)
	span := last - first + 1
	for i := 0; i < s.N; i++ {
		var st, en uint64
		if span >= uint64(2*s.N) {
			w := span / uint64(s.N)
			st = first + uint64(i)*w
			en = st + w - 1
			if s.Alt {
				en = st + w/2
			}
		} else {
			st = first + uint64(i)%span
			en = st
		}
		nm := fmt.Sprintf("part%d", i+1)
		ty := gpt.LinuxFilesystem
		gi := i + 1
		if s.Alt {
			nm = fmt.Sprintf("ALT-%d-\U0001F4BE", i+1)
			ty = gpt.EFISystemPartition
			gi = i + 130
		}
		t.Partitions = append(t.Partitions, &gpt.Partition{Index: i + 1, Start: st, End: en, Type: ty, Name: nm, GUID: partGUID(gi), Attributes: uint64(i)})
	}
	return t
}

type tblView struct {
	GUID  string
	Parts []gpt.Partition
}

func viewOf(t *gpt.Table) *tblView {
	v := &tblView{GUID: strings.ToUpper(t.GUID)}
	for _, p := range t.Partitions {
		q := gpt.Partition{Index: p.Index, Start: p.Start, End: p.End, Size: p.Size, Type: gpt.Type(strings.ToUpper(string(p.Type))), Name: p.Name, GUID: strings.ToUpper(p.GUID), Attributes: p.Attributes}
		v.Parts = append(v.Parts, q)
	}
	return v
}

func (a *tblView) equal(b *tblView) bool {
	if a == nil || b == nil {
		return a == b
	}
	if a.GUID != b.GUID || len(a.Parts) != len(b.Parts) {
		return false
	}
	for i := range a.Parts {
		if a.Parts[i] != b.Parts[i] {
			return false
		}
	}
	return true
}

type pendingSector struct {
	ev   int   // event index of the write
	off  int64 // device offset of the 512-byte sector
	data []byte
}

// runCrashPair enumerates all crash states of writing New over Old. With only != nil just that state is run.
// Returns "" or a description (replay mode); in enumeration mode violations go to r via report.
func runCrashPair(p *crashPair, st *crashStats, only *crashCase) string {
	base := memdev.New(p.DiskSize)
	var oldView *tblView
	if p.Old.Foreign > 0 {
		craftForeign(base, &foreignCase{Count: p.Old.Foreign, LSS: p.LSS, DiskSize: p.DiskSize, Used: 3, Layout: "tight", PMBR: p.PMBR})
		rt, err := gpt.Read(be(base, true), p.LSS, p.LSS)
		if err != nil {
			return "INFRA: crafted old table unreadable: " + err.Error()
		}
		oldView = viewOf(rt)
	} else if ot := shapeTable(p.Old, p.LSS, p.DiskSize, p.PMBR); ot != nil {
		if err := ot.Write(base, p.DiskSize); err != nil {
			return "INFRA: old table refused: " + err.Error()
		}
		rt, err := gpt.Read(be(base, true), p.LSS, p.LSS)
		if err != nil {
			return "INFRA: old table unreadable: " + err.Error()
		}
		oldView = viewOf(rt)
	}
	nt := shapeTable(p.New, p.LSS, p.DiskSize, p.PMBR)
	if p.Via != "" && p.Via != "disk" && oldView != nil {
		if p.Via == "recovered" {
			base.Poke([]byte("XXXXXXXX"), int64(p.LSS))
			rec, err := gpt.Read(base, p.LSS, p.LSS)
			if err != nil || !rec.RecoveredFromBackup {
				return fmt.Sprintf("INFRA: fallback read of the damaged old table: %v", err)
			}
			if err := rec.Write(base, p.DiskSize); err != nil {
				return "INFRA: repair write refused: " + err.Error()
			}
			rt, err := gpt.Read(be(base, true), p.LSS, p.LSS)
			if err != nil || rt.RecoveredFromBackup {
				return report(st, p, "c09|repair|not-readable-from-primary", fmt.Sprintf("after writing back a table recovered from the backup the primary is still not used: %v", err), 0, nil, nil)
			}
			if !viewOf(rt).equal(oldView) {
				return report(st, p, "c09|repair|changed-table", "writing back a table recovered from the backup changed the partition list", 0, nil, nil)
			}
		}
		cur, err := gpt.Read(base, p.LSS, p.LSS)
		if err != nil {
			return "INFRA: old table unreadable: " + err.Error()
		}
		cur.Partitions, cur.GUID, cur.ProtectiveMBR = nt.Partitions, nt.GUID, nt.ProtectiveMBR
		nt = cur
	}
	work := base.Clone()
	work.LogEvents, work.LogData = true, true
	var werr error
	if pm := guard(func() {
		if p.Via == "disk" {
			// the public route: Disk.Partition on a disk opened over the device (whatever wraps the device on that route must
			// pass the syncs through)
			dk := &disk.Disk{Backend: be(work, false), Size: p.DiskSize, LogicalBlocksize: int64(p.LSS), PhysicalBlocksize: int64(p.LSS), DefaultBlocks: true}
			werr = dk.Partition(nt)
			return
		}
		werr = nt.Write(work, p.DiskSize)
	}); pm != "" {
		return "write panic " + pm
	}
	if werr != nil {
		if p.Old.Foreign > 0 && p.Via != "" {
			return "" // a table object read from a 4-slot disk cannot take 40 partitions: refused, nothing written (judged by C02/C03)
		}
		return "INFRA: new table refused: " + werr.Error()
	}
	events := work.Events
	// new view = what a completed write reads back as
	frt, ferr := gpt.Read(be(work.Clone(), true), p.LSS, p.LSS)
	if ferr != nil {
		return report(st, p, "c09|completed-write|read-error", "completed Write does not read back: "+ferr.Error(), len(events), nil, nil)
	}
	newView := viewOf(frt)
	wantNew := viewOf(nt)
	for i := range wantNew.Parts {
		wantNew.Parts[i].Size = (wantNew.Parts[i].End - wantNew.Parts[i].Start + 1) * uint64(p.LSS)
	}
	if !newView.equal(wantNew) {
		return report(st, p, "c09|completed-write|not-new", "completed Write reads back as something other than the new table", len(events), nil, nil)
	}
	if frt.RecoveredFromBackup {
		return report(st, p, "c09|completed-write|from-backup", "completed Write is read from the backup copy, not the primary", len(events), nil, nil)
	}
	if st != nil {
		st.mu.Lock()
		st.logShapes[fmt.Sprintf("%d writes %d syncs", work.Writes, work.Syncs)]++
		st.mu.Unlock()
	}

	check := func(view *memdev.Dev, prefix int, applied []int, pend []pendingSector) string {
		var rt *gpt.Table
		var rerr error
		if pm := guard(func() { rt, rerr = gpt.Read(be(view, true), p.LSS, p.LSS) }); pm != "" {
			return report(st, p, "c09|read-panic|"+pm, pm, prefix, applied, pend)
		}
		if st != nil {
			st.add(view)
		}
		if rerr != nil {
			if oldView == nil {
				return "" // old = no table
			}
			return report(st, p, "c09|crash-state|read-error", "after the crash the table cannot be read: "+firstWords(rerr.Error()), prefix, applied, pend)
		}
		got := viewOf(rt)
		isOld, isNew := got.equal(oldView), got.equal(newView)
		if !isOld && !isNew {
			return report(st, p, "c09|crash-state|mixture", fmt.Sprintf("after the crash the table is neither old nor new: guid=%s parts=%d", got.GUID, len(got.Parts)), prefix, applied, pend)
		}
		if st != nil {
			st.mu.Lock()
			if isOld && !isNew {
				st.sawOld++
			} else if isNew && !isOld {
				st.sawNew++
			}
			st.mu.Unlock()
		}
		if oldView != nil {
			pt, perr := partition.Read(be(view, true), p.LSS, p.LSS)
			if perr != nil {
				return report(st, p, "c09|crash-state|partition.Read-error", "partition.Read fails after the crash: "+perr.Error(), prefix, applied, pend)
			}
			g2, ok := pt.(*gpt.Table)
			if !ok || !viewOf(g2).equal(got) {
				return report(st, p, "c09|crash-state|partition.Read-disagrees", "partition.Read does not agree with gpt.Read after the crash", prefix, applied, pend)
			}
		}
		return ""
	}

	// enumerate prefixes
	for k := 0; k <= len(events); k++ {
		if only != nil && k != only.Prefix {
			continue
		}
		// durable: all writes before the last sync in events[:k]
		lastSync := -1
		for i := 0; i < k; i++ {
			if events[i].Kind == memdev.EvSync {
				lastSync = i
			}
		}
		if k > 0 && events[k-1].Kind == memdev.EvSync && only == nil {
			// state right after a sync == all-applied state of the previous prefix: covered there (k-1 has "all")
			continue
		}
		dur := base.Clone()
		for i := 0; i <= lastSync; i++ {
			if events[i].Kind == memdev.EvWrite {
				dur.Poke(events[i].Data, events[i].Off)
			}
		}
		// pending sectors of unsynced writes that differ from the content they would overwrite
		var pend []pendingSector
		shadow := dur.Clone()
		for i := lastSync + 1; i < k; i++ {
			e := events[i]
			if e.Kind != memdev.EvWrite {
				continue
			}
			for o := e.Off - e.Off%512; o < e.Off+int64(e.Len); o += 512 {
				lo, hi := o, o+512
				if lo < e.Off {
					lo = e.Off
				}
				if hi > e.Off+int64(e.Len) {
					hi = e.Off + int64(e.Len)
				}
				cur := shadow.Peek(lo, int(hi-lo))
				nw := e.Data[lo-e.Off : hi-e.Off]
				if string(cur) != string(nw) {
					pend = append(pend, pendingSector{i, lo, append([]byte(nil), nw...)})
				}
			}
			shadow.Poke(e.Data, e.Off)
		}
		subsets, exhaustive := sectorSubsets(len(pend), st != nil && st.thorough)
		if st != nil {
			st.mu.Lock()
			if !exhaustive {
				st.nonExhaustive++
			}
			if len(pend) > st.maxPending {
				st.maxPending = len(pend)
			}
			st.mu.Unlock()
		}
		if only != nil {
			subsets = [][]int{only.Applied}
		}
		for _, sub := range subsets {
			view := dur.Clone()
			for _, ix := range sub {
				view.Poke(pend[ix].data, pend[ix].off)
			}
			if res := check(view, k, sub, pend); res != "" && only != nil {
				return res
			}
			if st != nil {
				st.mu.Lock()
				st.states++
				st.mu.Unlock()
			}
		}
	}
	return ""
}

// sectorSubsets returns the subsets of n pending sectors to explore: all of them when n <= limit, else the
// generating family {none, all, each single, all-but-one, first-k, last-k, even, odd}.
func sectorSubsets(n int, thorough bool) ([][]int, bool) {
	limit := 10
	if thorough {
		limit = 12
	}
	if n <= limit {
		out := make([][]int, 0, 1<<n)
		for m := 0; m < 1<<n; m++ {
			var s []int
			for i := 0; i < n; i++ {
				if m&(1<<i) != 0 {
					s = append(s, i)
				}
			}
			out = append(out, s)
		}
		return out, true
	}
	seen := map[string]bool{}
	var out [][]int
	add := func(s []int) {
		k := fmt.Sprint(s)
		if !seen[k] {
			seen[k] = true
			out = append(out, s)
		}
	}
	all := make([]int, n)
	for i := range all {
		all[i] = i
	}
	add(nil)
	add(all)
	for i := 0; i < n; i++ {
		add([]int{i})
		var ab []int
		for j := 0; j < n; j++ {
			if j != i {
				ab = append(ab, j)
			}
		}
		add(ab)
		add(append([]int(nil), all[:i]...))
		add(append([]int(nil), all[i:]...))
	}
	var ev_, od []int
	for i := 0; i < n; i++ {
		if i%2 == 0 {
			ev_ = append(ev_, i)
		} else {
			od = append(od, i)
		}
	}
	add(ev_)
	add(od)
	return out, false
}

type crashStats struct {
	r             *ev.Run
	mu            syncMutex
	states        int64
	distinct      map[[32]byte]bool
	sawOld        int64
	sawNew        int64
	nonExhaustive int
	maxPending    int
	thorough      bool
	logShapes     map[string]int
}

func (s *crashStats) add(v *memdev.Dev) {
	d := v.Digest()
	s.mu.Lock()
	s.distinct[d] = true
	s.mu.Unlock()
}

func report(st *crashStats, p *crashPair, sig, msg string, prefix int, applied []int, pend []pendingSector) string {
	var pd []string
	for _, x := range pend {
		pd = append(pd, fmt.Sprintf("write#%d sector@%d", x.ev, x.off))
	}
	cc := crashCase{Pair: *p, Prefix: prefix, Applied: applied, Pending: pd}
	if st != nil {
		st.r.Report(sig, fmt.Sprintf("%s [old=%s new=%s via=%s lss=%d disk=%d pmbr=%v cut after %d log events, %d of %d differing sectors persisted]", msg, p.Old.Name, p.New.Name, p.Via, p.LSS, p.DiskSize, p.PMBR, prefix, len(applied), len(pend)), cc)
	}
	return sig + ": " + msg
}

func C09(r *ev.Run) {
	shapes := []tblShape{
		{Name: "blank", N: -1}, {Name: "empty", N: 0}, {Name: "one", N: 1}, {Name: "four", N: 4},
		{Name: "four-alt-guid2", N: 4, Alt: true, GUID2: true}, {Name: "forty", N: 40}, {Name: "full128-guid2", N: 128, GUID2: true},
		{Name: "one-guid2", N: 1, GUID2: true}, {Name: "four-alt", N: 4, Alt: true},
		{Name: "foreign-4-slots", N: 3, Foreign: 4}, {Name: "foreign-56-slots", N: 3, Foreign: 56},
	}
	var pairs []crashPair
	for _, lss := range []int{512, 4096} {
		minSectors := int64(2 + 2*(128*128/lss) + 1 + 8)
		sizes := []int64{minSectors * int64(lss), 10 << 20, 1000000 + int64(lss)*40} // the last one is not a whole number of sectors
		if lss == 512 {
			sizes = append(sizes, 1<<41+1<<20) // more than 2^32 sectors: the protective MBR cannot say where the disk ends
		}
		for _, dsz := range sizes {
			for _, pm := range []bool{true, false} {
				for oi, o := range shapes {
					for ni, n := range shapes {
						if n.N < 0 || n.Foreign > 0 {
							continue
						}
						if r.Quick() && ((lss != 512 || dsz != 10<<20 || !pm) && (oi+ni)%3 != 0) {
							continue
						}
						if o.Foreign > 0 && (!pm || (r.Quick() && dsz != 10<<20)) {
							continue
						}
						pairs = append(pairs, crashPair{Old: o, New: n, LSS: lss, DiskSize: dsz, PMBR: pm})
						if o.Foreign == 0 && (!r.Quick() || (oi+ni)%2 == 0) {
							pairs = append(pairs, crashPair{Old: o, New: n, LSS: lss, DiskSize: dsz, PMBR: pm, Via: "disk"})
						}
						if o.N >= 0 && (!r.Quick() || (oi+ni)%2 == 1) {
							pairs = append(pairs, crashPair{Old: o, New: n, LSS: lss, DiskSize: dsz, PMBR: pm, Via: "rmw"}, crashPair{Old: o, New: n, LSS: lss, DiskSize: dsz, PMBR: pm, Via: "recovered"})
						}
					}
				}
			}
		}
	}
	st := &crashStats{r: r, distinct: map[[32]byte]bool{}, thorough: !r.Quick(), logShapes: map[string]int{}}
	done := parallel(len(pairs), r.OutOfTime, func(i int) {
		if res := runCrashPair(&pairs[i], st, nil); strings.HasPrefix(res, "INFRA") {
			r.Report("c09|infra", res, pairs[i])
		}
	})
	r.Set("evaluations", st.states)
	r.Set("distinct_nontrivial", int64(len(st.distinct)))
	r.Set("pairs", int64(done))
	r.Set("crash_states_reading_only_old", st.sawOld)
	r.Set("crash_states_reading_only_new", st.sawNew)
	r.Set("max_differing_sectors_in_flight", int64(st.maxPending))
	r.Set("prefixes_with_subset_family_instead_of_all_subsets", int64(st.nonExhaustive))
	ls := []string{}
	for k, v := range st.logShapes {
		ls = append(ls, fmt.Sprintf("%s x%d", k, v))
	}
	sort.Strings(ls)
	r.Set("write_log_shapes", ls)
	r.Set("rule", "for every ordered pair (old,new) of table shapes {blank, empty, 1, 4, 4 other geometry/names/types/GUID, 40, 128 partitions, same/different disk GUID; as old table also a disk partitioned by another tool with a 4-slot and a 56-slot entry array directly in front of the first partition} x sector size x disk size x protective MBR x lineage of the written object {built by the caller and written with Table.Write, built by the caller and written through Disk.Partition, read from the disk and modified, the same after the disk had been repaired from its backup copy}: the real Table.Write runs on a logging device; every prefix of its WriteAt/Sync log x every subset (<=12 differing sectors: all 2^n subsets; more: none/all/single/all-but-one/first-k/last-k/even/odd) of the 512-byte sectors of the unsynced writes that change the medium is materialised and read with gpt.Read and partition.Read; distinct_nontrivial = distinct device images among the crash states")
	// the enumerated space is the one the rule spells out (all subsets up to the limit, the generating family above it);
	// how often the family stood in for all subsets is reported next to it
	r.Set("exhaustive", done == len(pairs))
	r.Set("all_subsets_everywhere", st.nonExhaustive == 0)
	r.Sample(map[string]any{"old": "four", "new": "four-alt-guid2", "cut": "during primary entry array", "persisted_sectors": "any subset of the differing ones"})
	if len(pairs) > 3 {
		r.Sample(pairs[3])
	}
}
