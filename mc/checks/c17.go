package checks

import (
	"bytes"
	"context"
	"encoding/json"
	"errors"
	"fmt"
	"io"
	"os"
	"os/exec"
	"runtime"
	"sort"
	"strconv"
	"strings"
	"sync"
	"time"

	"github.com/diskfs/go-diskfs/filesystem/squashfs"

	"verifmc/ev"
	"verifmc/sched"
)

func init() {
	register("C17", "model_checking", C17)
	workers["c17race"] = c17RaceWorker
	workers["c17h"] = c17ExploreWorker
	Replayers["C17"] = func(raw []byte) string {
		var c c17Case
		if err := json.Unmarshal(raw, &c); err != nil {
			return "bad case"
		}
		for _, h := range c17Harnesses(false) {
			if h.Name != c.Harness {
				continue
			}
			a := sched.Run(h.Make().bodies, c.Schedule, 20000)
			b := sched.Run(h.Make().bodies, c.Schedule, 20000)
			if fmt.Sprint(a.Choices) != fmt.Sprint(b.Choices) {
				return "NONDETERMINISM: the same schedule prefix produced different executions"
			}
			inst := h.Make()
			x := sched.Run(inst.bodies, c.Schedule, 20000)
			if s, m := inst.check(x); s != "" {
				return s + ": " + m
			}
			return "holds"
		}
		return "unknown harness " + c.Harness
	}
}

type c17Case struct {
	Harness  string `json:"harness"`
	Schedule []int  `json:"schedule"`
	Threads  any    `json:"threads,omitempty"`
}

type c17Instance struct {
	bodies []func()
	check  func(x *sched.Exec) (sig, msg string)
}

type c17Harness struct {
	Name string
	Desc string
	Make func() *c17Instance
}

func tagged(pos int64) []byte {
	return []byte(fmt.Sprintf("block@%d", pos))
}

// ---- Harness U: the real lru under the scheduler -------------------------------------------------------

type lruOp struct {
	Kind string // get | setmax
	Pos  int64
	N    int
}

func lruHarness(name string, maxBlocks int, threads [][]lruOp, failFirstFetchOf int64) c17Harness {
	return c17Harness{Name: name, Desc: fmt.Sprintf("lru maxBlocks=%d threads=%v failFirstFetchOf=%d", maxBlocks, threads, failFirstFetchOf), Make: func() *c17Instance {
		l := squashfs.VerifNewLRU(maxBlocks)
		type result struct {
			pos  int64
			data []byte
			size uint16
			err  error
			fail bool
		}
		results := make([][]result, len(threads))
		failed := false
		finalMax := maxBlocks
		inst := &c17Instance{}
		for ti, ops := range threads {
			ti, ops := ti, ops
			inst.bodies = append(inst.bodies, func() {
				for _, op := range ops {
					switch op.Kind {
					case "get":
						thisFail := false
						d, sz, err := l.Get(op.Pos, func() ([]byte, uint16, error) {
							sched.Point() // the backend read happens here
							if op.Pos == failFirstFetchOf && !failed {
								failed = true
								thisFail = true
								return nil, 0, errors.New("injected read error")
							}
							return tagged(op.Pos), uint16(op.Pos), nil
						})
						results[ti] = append(results[ti], result{op.Pos, d, sz, err, thisFail})
					case "setmax":
						l.SetMaxBlocks(op.N)
						finalMax = op.N
					}
				}
			})
		}
		inst.check = func(x *sched.Exec) (string, string) {
			if x.Panic != "" {
				return "lru|panic|" + x.Panic, "panic: " + x.Panic
			}
			if x.Deadlock {
				return "lru|deadlock", fmt.Sprintf("no thread can run but threads %v have not finished", x.Unfinished)
			}
			if x.Livelock {
				return "lru|livelock", "execution exceeded the step horizon"
			}
			for ti, rs := range results {
				if len(rs) != countGets(threads[ti]) {
					return "lru|thread-did-not-finish", fmt.Sprintf("thread %d finished %d of its gets", ti, len(rs))
				}
				for _, r := range rs {
					if r.fail {
						if r.err == nil {
							return "lru|fetch-error-swallowed", fmt.Sprintf("get(%d): the fetch failed but get returned no error", r.pos)
						}
						continue
					}
					if r.err != nil {
						return "lru|spurious-error", fmt.Sprintf("get(%d) returned %v although its fetch did not fail", r.pos, r.err)
					}
					if !bytes.Equal(r.data, tagged(r.pos)) || r.size != uint16(r.pos) {
						return "lru|wrong-block", fmt.Sprintf("get(%d) returned %q size %d", r.pos, r.data, r.size)
					}
				}
			}
			keys, list, mb, linked := l.Dump()
			if !linked {
				return "lru|list-corrupt", "the LRU list is not a well linked circle"
			}
			sort.Slice(keys, func(i, j int) bool { return keys[i] < keys[j] })
			ls := append([]int64(nil), list...)
			sort.Slice(ls, func(i, j int) bool { return ls[i] < ls[j] })
			if fmt.Sprint(keys) != fmt.Sprint(ls) {
				return "lru|map-list-mismatch", fmt.Sprintf("cache map holds %v, list holds %v", keys, list)
			}
			lim := mb
			if lim < 1 {
				lim = 1
			}
			if len(keys) > lim {
				return "lru|over-capacity", fmt.Sprintf("%d blocks cached with maxBlocks=%d", len(keys), mb)
			}
			if mb != finalMax {
				return "lru|maxblocks", fmt.Sprintf("maxBlocks=%d after setMaxBlocks(%d)", mb, finalMax)
			}
			return "", ""
		}
		return inst
	}}
}

func countGets(ops []lruOp) int {
	n := 0
	for _, o := range ops {
		if o.Kind == "get" {
			n++
		}
	}
	return n
}

// ---- Harness I: real FileSystem, concurrent readers ------------------------------------------------------

var c17Img struct {
	once sync.Once
	img  *sqImage
	tree *treeSpec
	err  error
}

func c17Image() (*sqImage, *treeSpec, error) {
	c17Img.once.Do(func() {
		t := &treeSpec{Dirs: []string{"d"}, Files: map[string][]byte{
			"f1": sqContent("c17-f1", 300), "f2": sqContent("c17-f2x", 700), "d/f3": sqContent("c17-f3", 100),
			"big": sqContent("c17-bigg", 2*4096+123)}}
		c17Img.tree = t
		c17Img.img, c17Img.err = buildSquash(t, squashfs.FinalizeOptions{Compression: &squashfs.CompressorGzip{CompressionLevel: 9}}, 4096, 0)
	})
	return c17Img.img, c17Img.tree, c17Img.err
}

// c17Image2: uncompressed data blocks (a block that is stored as it is can be handed out without a copy), two files of
// several blocks each, and two directories of 140 entries so that the directory and inode tables span several metadata
// blocks of different sizes.
var c17Img2 struct {
	once sync.Once
	img  *sqImage
	tree *treeSpec
	err  error
}

func c17Image2() (*sqImage, *treeSpec, error) {
	c17Img2.once.Do(func() {
		t := &treeSpec{Dirs: []string{"da", "db"}, Files: map[string][]byte{
			"r1": randomBytes(171, 3*4096+500), "r2": randomBytes(172, 2*4096+77)}}
		for i := 0; i < 140; i++ {
			t.Files[fmt.Sprintf("da/file-%03d-%s", i, strings.Repeat("a", 8+i%23))] = nil
			t.Files[fmt.Sprintf("db/f%03d-%s", i, strings.Repeat("b", 17))] = nil
		}
		t.Files["da/file-299-last"] = sqContent("c17-da", 40)
		t.Files["db/zz-last"] = sqContent("c17-db", 50)
		c17Img2.tree = t
		c17Img2.img, c17Img2.err = buildSquash(t, squashfs.FinalizeOptions{Compression: &squashfs.CompressorGzip{CompressionLevel: 9}, NoCompressData: true}, 4096, 0)
	})
	return c17Img2.img, c17Img2.tree, c17Img2.err
}

func fsHarness(name string, cache int, files [][]string, resize []int) c17Harness {
	return fsHarnessOn(name, cache, files, resize, 0, c17Image)
}

// fsHarnessOn: chunk > 0 makes every reader open its own handle and Read in pieces of that many bytes.
func fsHarnessOn(name string, cache int, files [][]string, resize []int, chunk int, image func() (*sqImage, *treeSpec, error)) c17Harness {
	return c17Harness{Name: name, Desc: fmt.Sprintf("squashfs readers cache=%d files=%v resize=%v chunk=%d", cache, files, resize, chunk), Make: func() *c17Instance {
		img, tree, err := image()
		inst := &c17Instance{}
		if err != nil {
			inst.check = func(*sched.Exec) (string, string) { return "fs|infra", err.Error() }
			return inst
		}
		dev := img.Dev.Clone()
		dev.OnRead = func(int64, int) { sched.Point() }
		dev.OnReadDone = func(int64, int) { sched.Point() }
		fs, oerr := squashfs.Read(be(dev, true), img.Size, 0, img.Blocksize)
		if oerr != nil {
			inst.check = func(*sched.Exec) (string, string) { return "fs|infra", oerr.Error() }
			return inst
		}
		switch {
		case cache == 0:
			fs.SetCacheSize(0)
		case cache > 0:
			fs.SetCacheSize(cache * 4096)
		}
		got := make([]map[string][]byte, len(files))
		errs := make([]error, len(files))
		for ti, fl := range files {
			ti, fl := ti, fl
			got[ti] = map[string][]byte{}
			inst.bodies = append(inst.bodies, func() {
				for _, p := range fl {
					if chunk > 0 {
						f, e := fs.OpenFile(p, os.O_RDONLY)
						if e != nil {
							errs[ti] = fmt.Errorf("OpenFile(%s): %w", p, e)
							return
						}
						var b []byte
						buf := make([]byte, chunk)
						for {
							k, e := f.Read(buf)
							b = append(b, buf[:k]...)
							sched.Point() // between two calls of the reader's own loop
							if e == io.EOF {
								break
							}
							if e != nil || k == 0 {
								errs[ti] = fmt.Errorf("Read(%s): %d, %v", p, k, e)
								return
							}
						}
						f.Close()
						got[ti][p] = b
						continue
					}
					b, e := fs.ReadFile(p)
					if e != nil {
						errs[ti] = fmt.Errorf("ReadFile(%s): %w", p, e)
						return
					}
					got[ti][p] = b
				}
			})
		}
		if len(resize) > 0 {
			inst.bodies = append(inst.bodies, func() {
				for _, k := range resize {
					fs.SetCacheSize(k * 4096)
				}
			})
		}
		inst.check = func(x *sched.Exec) (string, string) {
			if x.Panic != "" {
				return "fs|panic|" + x.Panic, "panic: " + x.Panic
			}
			if x.Deadlock {
				return "fs|deadlock", fmt.Sprintf("no thread can run but threads %v have not finished", x.Unfinished)
			}
			if x.Livelock {
				return "fs|livelock", "execution exceeded the step horizon"
			}
			for ti, fl := range files {
				if errs[ti] != nil {
					return "fs|read-error", fmt.Sprintf("reader %d: %v", ti, errs[ti])
				}
				for _, p := range fl {
					if !bytes.Equal(got[ti][p], tree.Files[p]) {
						return "fs|wrong-bytes", fmt.Sprintf("reader %d read %d bytes of %s that differ from what a sequential reader gets (%d bytes)", ti, len(got[ti][p]), p, len(tree.Files[p]))
					}
				}
			}
			if c := fs.VerifCache(); c != nil {
				keys, list, mb, linked := c.Dump()
				if !linked || len(keys) != len(list) {
					return "fs|cache-corrupt", fmt.Sprintf("cache map %d entries, list %d, well linked %v", len(keys), len(list), linked)
				}
				lim := mb
				if lim < 1 {
					lim = 1
				}
				if len(keys) > lim {
					return "fs|cache-over-capacity", fmt.Sprintf("%d blocks cached with maxBlocks=%d", len(keys), mb)
				}
			}
			return "", ""
		}
		return inst
	}}
}

func c17Harnesses(quick bool) []c17Harness {
	G := func(p int64) lruOp { return lruOp{Kind: "get", Pos: p} }
	S := func(n int) lruOp { return lruOp{Kind: "setmax", N: n} }
	var hs []c17Harness
	for _, mb := range []int{0, 1, 2} {
		hs = append(hs,
			lruHarness(fmt.Sprintf("lru/cross/max%d", mb), mb, [][]lruOp{{G(10), G(20)}, {G(20), G(10)}}, -1),
			lruHarness(fmt.Sprintf("lru/same+other/max%d", mb), mb, [][]lruOp{{G(10)}, {G(10)}, {G(20)}}, -1),
			lruHarness(fmt.Sprintf("lru/failing-fetch/max%d", mb), mb, [][]lruOp{{G(10), G(20)}, {G(10)}}, 10),
		)
		for _, k := range []int{0, 1, 3} {
			if quick && (mb+k)%2 == 1 {
				continue
			}
			hs = append(hs, lruHarness(fmt.Sprintf("lru/resize%d/max%d", k, mb), mb, [][]lruOp{{G(10), G(20)}, {G(10)}, {S(k)}}, -1))
		}
	}
	hs = append(hs, lruHarness("lru/three-positions/max1", 1, [][]lruOp{{G(10), G(30)}, {G(20), G(10)}, {G(30)}}, -1))
	// four threads: two of them want the same block while two others evict it; a failing fetch with two waiters behind it
	for _, mb := range []int{1, 2} {
		hs = append(hs, lruHarness(fmt.Sprintf("lru/four/max%d", mb), mb, [][]lruOp{{G(10)}, {G(20)}, {G(10)}, {G(30)}}, -1))
	}
	hs = append(hs, lruHarness("lru/four-resize/max1", 1, [][]lruOp{{G(10)}, {G(20)}, {G(10)}, {S(0)}}, -1))
	hs = append(hs, lruHarness("lru/failing-fetch3/max1", 1, [][]lruOp{{G(10)}, {G(10)}, {G(10), G(20)}}, 10))
	for _, cache := range []int{0, 1, 2, -1} {
		hs = append(hs, fsHarness(fmt.Sprintf("fs/shared-fragment/cache%d", cache), cache, [][]string{{"f1"}, {"f2"}}, nil))
		if !quick || cache == 1 {
			hs = append(hs, fsHarness(fmt.Sprintf("fs/three-readers/cache%d", cache), cache, [][]string{{"f1", "big"}, {"d/f3"}, {"big"}}, nil))
		}
		if cache >= 1 {
			hs = append(hs, fsHarness(fmt.Sprintf("fs/resize/cache%d", cache), cache, [][]string{{"f1"}, {"big"}}, []int{0, 3}))
		}
		// uncompressed multi-block files read in pieces through own handles; directories in different metadata blocks
		if !quick || cache == 1 || cache == -1 {
			hs = append(hs, fsHarnessOn(fmt.Sprintf("fs/uncompressed-chunked/cache%d", cache), cache, [][]string{{"r1"}, {"r2"}}, nil, 1500, c17Image2))
		}
		if cache == -1 || (!quick && cache == 2) {
			hs = append(hs, fsHarnessOn(fmt.Sprintf("fs/two-directories/cache%d", cache), cache, [][]string{{"da/file-299-last"}, {"db/zz-last"}}, nil, 0, c17Image2))
		}
	}
	return hs
}

// c17Bound: preemption bound per harness and tier. The LRU harnesses are short (about 20 scheduling points), the filesystem
// harnesses long (70..1200 points per execution), so the bounds differ; every harness runs to completion of its bound.
func c17Bound(name string, quick bool) int {
	switch {
	case strings.HasPrefix(name, "lru/four"):
		if quick {
			return 2
		}
		return 3
	case strings.HasPrefix(name, "lru/"):
		if quick {
			return 3
		}
		return 5
	case strings.HasPrefix(name, "fs/two-directories"):
		return 1 // a path lookup touches every entry of the directory: ~1000 scheduling points per execution
	case strings.HasPrefix(name, "fs/three"):
		if quick {
			return 1
		}
		return 2
	case strings.HasPrefix(name, "fs/resize"):
		if quick {
			return 2
		}
		return 3
	case strings.HasPrefix(name, "fs/shared-fragment"):
		if quick {
			return 3
		}
		return 4
	}
	if quick {
		return 2
	}
	return 3
}

type c17Result struct {
	Harness    string   `json:"harness"`
	Bound      int      `json:"preemption_bound"`
	Executions int64    `json:"executions"`
	Steps      int64    `json:"scheduling_steps"`
	MaxPoints  int      `json:"max_scheduling_points"`
	Distinct   int64    `json:"distinct_schedules"`
	Capped     bool     `json:"capped"`
	Desc       string   `json:"desc"`
	Default    int      `json:"default_schedule_points"`
	Sig        string   `json:"sig,omitempty"`
	Msg        string   `json:"msg,omitempty"`
	Schedule   []int    `json:"schedule,omitempty"`
	Nondet     bool     `json:"nondeterminism,omitempty"`
	Outcomes   []string `json:"thread_finish_orders,omitempty"`
}

// c17ExploreWorker explores ONE harness in its own process (vmc worker c17h <tier> <harness> <bound> <seconds>) and prints a
// c17Result. One process per harness: the scheduler keeps its state in package variables, and 16 harnesses run side by side.
func c17ExploreWorker(args []string) {
	quick := args[0] != "thorough"
	name := args[1]
	bound, _ := strconv.Atoi(args[2])
	secs, _ := strconv.Atoi(args[3])
	deadline := time.Now().Add(time.Duration(secs) * time.Second)
	// one P during the exploration: the controlled scheduler runs one thread at a time anyway, and per-P structures of
	// the runtime (sync.Pool's private slots) then behave the same in every execution - a buffer one thread returns to
	// a pool is the buffer the next thread gets
	runtime.GOMAXPROCS(1)
	res := c17Result{Harness: name, Bound: bound}
	for _, h := range c17Harnesses(quick) {
		if h.Name != name {
			continue
		}
		res.Desc = h.Desc
		e := &sched.Explorer{Bound: bound, MaxSteps: 20000, Stop: func() bool { return time.Now().After(deadline) }}
		var cur *c17Instance
		first := true
		orders := map[string]bool{}
		e.Explore(func() []func() {
			cur = h.Make()
			return cur.bodies
		}, func(x *sched.Exec) {
			if first {
				first = false
				// determinism guard: the default schedule replayed must make the same decisions
				y := sched.Run(h.Make().bodies, x.Choices, 20000)
				if fmt.Sprint(y.Choices) != fmt.Sprint(x.Choices) || len(y.Points) != len(x.Points) {
					res.Nondet = true
					res.Schedule = x.Choices
				}
				res.Default = len(x.Points)
			}
			res.Steps += int64(x.Steps)
			if len(orders) < 4096 {
				orders[x.FinishOrder] = true
			}
			if sig, msg := cur.check(x); sig != "" && res.Sig == "" {
				res.Sig, res.Msg, res.Schedule = sig, msg, append([]int(nil), x.Choices...)
				e.Capped = true // do not pile up abandoned goroutines behind a failing harness
			}
		})
		res.Executions = e.Executions
		res.Distinct = e.Executions // a DFS over choice sequences never repeats a schedule
		res.MaxPoints = e.MaxPoints
		res.Capped = e.Capped && res.Sig == ""
		for o := range orders {
			res.Outcomes = append(res.Outcomes, o)
		}
		sort.Strings(res.Outcomes)
	}
	b, _ := json.Marshal(res)
	fmt.Println(string(b))
}

func C17(r *ev.Run) {
	hs := c17Harnesses(r.Quick())
	results := make([]*c17Result, len(hs))
	budget := 110
	if !r.Quick() {
		budget = 1300
	}
	var mu sync.Mutex
	exhaustive := true
	parallel(len(hs), r.OutOfTime, func(i int) {
		h := hs[i]
		b := c17Bound(h.Name, r.Quick())
		cmd := exec.Command(vmcPath(), "worker", "c17h", r.Tier, h.Name, strconv.Itoa(b), strconv.Itoa(budget))
		var errb bytes.Buffer
		cmd.Stderr = &errb
		out, err := cmd.Output()
		var res c17Result
		if err != nil || json.Unmarshal(bytes.TrimSpace(out), &res) != nil {
			mu.Lock()
			r.Report("c17|infra|worker", fmt.Sprintf("exploration worker for %s failed: %v %s", h.Name, err, clipN(errb.String(), 600)), nil)
			mu.Unlock()
			return
		}
		results[i] = &res
	})
	var execs, steps int64
	maxPoints, maxBound := 0, 0
	outcomes := map[string]int64{}
	finishOrders := map[string]bool{}
	var per []map[string]any
	for i, res := range results {
		if res == nil {
			exhaustive = false
			continue
		}
		execs += res.Executions
		steps += res.Steps
		if res.MaxPoints > maxPoints {
			maxPoints = res.MaxPoints
		}
		if res.Bound > maxBound {
			maxBound = res.Bound
		}
		if res.Capped {
			exhaustive = false
		}
		if res.Nondet {
			r.Report("c17|nondeterminism|"+res.Harness, "replaying a recorded schedule diverged", c17Case{Harness: res.Harness, Schedule: res.Schedule})
		}
		if res.Sig != "" {
			outcomes["violation"]++
			r.Report("c17|"+res.Sig, fmt.Sprintf("%s [%s] schedule %v: %s", res.Harness, res.Desc, res.Schedule, res.Msg), c17Case{Harness: res.Harness, Schedule: res.Schedule, Threads: res.Desc})
		}
		outcomes["ok"] += res.Executions
		for _, o := range res.Outcomes {
			finishOrders[res.Harness+":"+o] = true
		}
		if i < 14 {
			r.Sample(map[string]any{"harness": res.Harness, "what": res.Desc, "default_schedule_points": res.Default})
		}
		per = append(per, map[string]any{"harness": res.Harness, "preemption_bound": res.Bound, "executions": res.Executions, "scheduling_steps": res.Steps, "max_scheduling_points": res.MaxPoints, "distinct_thread_finish_orders": len(res.Outcomes), "completed": !res.Capped})
	}
	states := execs
	bound := maxBound
	// auxiliary free-running pass under the race detector (sampling; the exploration above is the deciding step)
	raceNote := "not run (no -race binary)"
	if rb := os.Getenv("VERIF_VMC_RACE"); rb != "" {
		var errb bytes.Buffer
		var out []byte
		var err error
		hung := 0
		for attempt := 0; attempt < 2; attempt++ {
			errb.Reset()
			ctx, cancel := context.WithTimeout(context.Background(), 150*time.Second)
			cmd := exec.CommandContext(ctx, rb, "worker", "c17race", r.Tier)
			cmd.Stderr = &errb
			out, err = cmd.Output()
			timedOut := ctx.Err() != nil
			cancel()
			if !timedOut {
				break
			}
			hung++
		}
		if hung == 2 {
			// the free-running readers never finished, twice (a normal pass takes seconds): completion is part of the property
			r.Report("c17|race-pass|readers-never-finish", "free-running concurrent readers did not finish within 150 s, reproduced twice (normal duration: a few seconds)", map[string]any{"replay": "./check.sh C17 quick"})
		}
		raceNote = strings.TrimSpace(string(out))
		if strings.Contains(errb.String(), "DATA RACE") {
			site := ""
			for _, ln := range strings.Split(errb.String(), "\n") {
				if strings.Contains(ln, "go-diskfs/filesystem/squashfs.") {
					site = strings.TrimSpace(ln)
					if i := strings.Index(site, "("); i > 0 {
						site = site[:i]
					}
					site = site[strings.LastIndex(site, "/")+1:]
					break
				}
			}
			r.Report("c17|data-race|"+site, "the race detector reports a data race between concurrent readers: first library frame "+site, map[string]any{"replay": "./check.sh C17 quick (free-running -race pass)", "stderr_head": clipN(errb.String(), 1500)})
		} else if err != nil {
			if strings.Contains(string(out), "MISMATCH") || strings.Contains(string(out), "HANG") {
				r.Report("c17|race-pass|"+firstWords(string(out)), "free-running pass: "+clipN(string(out), 400), nil)
			} else {
				raceNote += " (worker error: " + err.Error() + " " + clipN(errb.String(), 200) + ")"
			}
		}
	}
	r.Set("states", states)
	r.Set("transitions", steps)
	r.Set("traces_validated_against_impl", execs)
	r.Set("schedules_explored", execs)
	r.Set("distinct_thread_finish_orders", int64(len(finishOrders)))
	r.Set("preemption_bound", int64(bound))
	r.Set("preemption_bound_note", "largest bound among the harnesses; the bound each harness completed is listed under harnesses (states = complete executions = distinct schedules, transitions = scheduling steps taken in them)")
	r.Set("max_scheduling_points_in_one_execution", int64(maxPoints))
	r.Set("harnesses", per)
	r.Set("distinct_outcomes", outcomes)
	r.Set("race_pass", raceNote)
	r.Set("exhaustive", exhaustive)
	r.Assume("scheduling points: every Lock/Unlock of the mutexes in filesystem/squashfs (sync redirected to the vsync shim by the build overlay), every fetch callback and every ReadAt of the device; unsynchronised accesses are left to the separate free-running -race pass")
	_ = runtime.NumCPU
}

func clipN(s string, n int) string {
	if len(s) > n {
		return s[:n]
	}
	return s
}

// ---- free-running race pass (built with -race) ------------------------------------------------------------

func c17RaceWorker(args []string) {
	quick := len(args) == 0 || args[0] != "thorough"
	img, tree, err := c17Image()
	if err != nil {
		fmt.Println("INFRA", err)
		os.Exit(3)
	}
	runs := 0
	for _, procs := range []int{1, 4, 16} {
		runtime.GOMAXPROCS(procs)
		for _, cache := range []int{0, 1, 2, -1} {
			for _, n := range []int{2, 8, 32} {
				if quick && n == 32 && procs != 4 {
					continue
				}
				dev := img.Dev.Clone()
				dev.OnRead = func(int64, int) { runtime.Gosched() }
				fs, err := squashfs.Read(be(dev, true), img.Size, 0, img.Blocksize)
				if err != nil {
					fmt.Println("INFRA", err)
					os.Exit(3)
				}
				switch {
				case cache == 0:
					fs.SetCacheSize(0)
				case cache > 0:
					fs.SetCacheSize(cache * 4096)
				}
				var wg sync.WaitGroup
				bad := make(chan string, 64)
				names := []string{"f1", "f2", "d/f3", "big"}
				for g := 0; g < n; g++ {
					wg.Add(1)
					go func(g int) {
						defer wg.Done()
						for k := 0; k < 6; k++ {
							p := names[(g+k)%len(names)]
							b, e := fs.ReadFile(p)
							if e != nil || !bytes.Equal(b, tree.Files[p]) {
								select {
								case bad <- fmt.Sprintf("MISMATCH goroutine %d file %s err %v", g, p, e):
								default:
								}
								return
							}
							if g == 0 && k%2 == 1 {
								fs.SetCacheSize(((k + cache + 2) % 4) * 4096)
							}
						}
					}(g)
				}
				wg.Wait()
				runs++
				select {
				case m := <-bad:
					fmt.Println(m)
					os.Exit(4)
				default:
				}
			}
		}
	}
	fmt.Printf("race pass: %d free-running configurations (GOMAXPROCS 1/4/16 x cache 0/1/2/default x 2/8/32 goroutines), no mismatch", runs)
}
