package checks

import (
	"encoding/binary"
	"fmt"
	"strings"
	"sync"

	"github.com/diskfs/go-diskfs/filesystem/iso9660"
	"github.com/diskfs/go-diskfs/filesystem/squashfs"
	"github.com/diskfs/go-diskfs/partition/gpt"
	"github.com/diskfs/go-diskfs/partition/mbr"

	"verifmc/ev"
	"verifmc/memdev"
)

func init() {
	register("C03", "model_checking", C03)
	Replayers["C03"] = func(raw []byte) string {
		if out, ok := replayForeign(raw, "C03"); ok {
			return out
		}
		return replayFatHistory(raw, "range", func() []*fatScen { return c03Scens(false) })
	}
}

func c03Scens(quick bool) []*fatScen {
	depth := 3
	if !quick {
		depth = 4
	}
	var out []*fatScen
	cfgs := []fatCfg{
		{Type: 12, Size: 64<<10 + 300, Start: 512},
		{Type: 32, Size: 64<<10 + 300, Start: 1 << 20},
		{Type: 16, Size: 4400<<10 + 700, Start: 4<<30 + 512},
		{Type: 4, Size: 1<<20 + 300, Start: 512, E4SectorsPerBlock: 2},
		{Type: 4, Size: 1<<20 + 700, Start: 1 << 20}, // block size chosen by Create itself
	}
	if !quick {
		cfgs = append(cfgs,
			fatCfg{Type: 32, Size: 1<<20 + 4000, Start: 4<<30 + 512},
			fatCfg{Type: 12, Size: 4<<20 + 700, Start: 0},
			fatCfg{Type: 4, Size: 2<<20 + 700, Start: 4<<30 + 512, E4SectorsPerBlock: 2, E4NoCsum: true},
			fatCfg{Type: 4, Size: 8<<20 + 3000, Start: 1 << 20, E4SectorsPerBlock: 8},
		)
	}
	for _, c := range cfgs {
		var ss []*fatScen
		if c.Type == 4 {
			ss = ext4Scenarios(c, "range", depth-1, quick)
			for _, ps := range ext4PrefixScenarios(c, "range", 2) {
				if ps.Name == "enospc" || ps.Name == "fragdir" {
					ss = append(ss, ps)
				}
			}
		} else {
			ss = fatScenarios(c, "range", depth, quick)
			if c.Size <= 2<<20 {
				ss = append(ss, fatFillScenario(c, "range", depth+1))
			}
		}
		if c.Size > 2<<20 {
			out = append(out, ss[:3]...) // larger volumes: the regular alphabets only (filling them is a matter of minutes)
			continue
		}
		// fill to ENOSPC with many small files and with directories, then keep going
		fill := &fatScen{Name: "fillsmall", Cfg: c, Oracle: "range", Depth: 3, Letters: []fsOp{
			{Kind: "fillsmall", Path: "s"}, {Kind: "filldirs", Path: "D"}, {Kind: "fillappend", Path: "grow.bin"}, {Kind: "write", Path: "big.bin", Off: "0", Len: "p70"}, {Kind: "write", Path: "big.bin", Off: "eof", Len: "p40"},
			{Kind: "mkdir", Path: "x/y"}, {Kind: "remove", Path: "s0003"}, {Kind: "create", Path: "one-more-long-named-file.txt"}, {Kind: "reopen"}}}
		ss = append(ss, fill)
		out = append(out, ss...)
	}
	// larger FAT volumes whose clusters are longer than a sector and whose data area does not start on a cluster boundary of
	// the range, filled to the very last cluster with a handful of writes
	for _, c := range []fatCfg{{Type: 12, Size: 4 << 20, Start: 1 << 20}, {Type: 12, Size: 4<<20 + 1536, Start: 512}, {Type: 16, Size: 33<<20 + 512, Start: 1 << 20}} {
		if quick && c.Type == 16 {
			continue
		}
		out = append(out, &fatScen{Name: "fillbig", Cfg: c, Oracle: "range", Depth: 2, Letters: []fsOp{{Kind: "fillgeo", Path: "g"}, {Kind: "write", Path: "last.bin", Off: "0", Len: "c+1"}, {Kind: "mkdir", Path: "d/e"}, {Kind: "remove", Path: "g000"}, {Kind: "reopen"}}})
	}
	// ext4 Create at sizes whose last block group is very short (or absent): nothing may be written behind the range
	out = append(out, ext4GroupSweep("range", quick, []fsOp{{Kind: "mkdir", Path: "d"}, {Kind: "write", Path: "f.bin", Off: "0", Len: "c+1"}, {Kind: "reopen"}})...)
	return out
}

// tableAllowed returns the byte ranges a table write may touch.
func tableAllowed(c *tblCase) []memdev.Range {
	if c.Kind == "mbr" {
		return []memdev.Range{{Lo: 446, Hi: 512}}
	}
	lss := int64(c.LSS)
	n := c.DiskSize / lss
	arr := int64(128 * 128)
	rs := []memdev.Range{{Lo: lss, Hi: 2 * lss}, {Lo: 2 * lss, Hi: 2*lss + arr}, {Lo: (n - 1) * lss, Hi: n * lss}, {Lo: (n-1)*lss - arr, Hi: (n - 1) * lss}}
	if c.PMBR {
		rs = append(rs, memdev.Range{Lo: 446, Hi: 512})
	}
	return rs
}

func C03(r *ev.Run) {
	// the three cheap enumerations run first so that the time budget of the history exploration can never starve them
	extraClasses := map[string]int64{}
	// ---- finalize of ISO9660 / squashfs images placed at start > 0
	var fin, finOK int64
	tree := &treeSpec{Dirs: []string{"d", "d/e"}, Files: map[string][]byte{"a.txt": patternBytes(1, 10), "d/b.bin": patternBytes(2, 2048), "d/e/c.bin": patternBytes(3, 5000), "z": nil}}
	for _, start := range []int64{0, 512 * 4, 1 << 20, 4<<30 + 4096} {
		for _, kind := range []string{"iso", "iso-rr", "squashfs", "squashfs-nofrag"} {
			fin++
			var d *memdev.Dev
			var size int64
			var err error
			switch kind {
			case "iso", "iso-rr":
				var img *isoImage
				img, err = buildISOMonitored(tree, iso9660.FinalizeOptions{RockRidge: kind == "iso-rr"}, 2048, start)
				if img != nil {
					d, size = img.Dev, img.Size
				}
			default:
				var img *sqImage
				img, err = buildSquashMonitored(tree, squashfs.FinalizeOptions{NoFragments: kind == "squashfs-nofrag"}, 4096, start)
				if img != nil {
					d, size = img.Dev, img.Size
				}
			}
			if err != nil && d == nil {
				extraClasses["finalize-refused:"+kind]++
				continue
			}
			// a second Finalize into a range that ends a few bytes behind the last byte the first one wrote (not a
			// multiple of any block size): the image fits, and nothing may be written behind the range
			if err == nil && len(d.Outside) == 0 {
				hi := int64(0)
				for _, e := range d.Events {
					if e.Kind == memdev.EvWrite && e.Off+int64(e.Len) > hi {
						hi = e.Off + int64(e.Len)
					}
				}
				if strings.HasPrefix(kind, "squashfs") {
					// the superblock says how many bytes the archive occupies (bytes_used at offset 40); padding a previous
					// run may have written behind it is not part of the archive
					if used := int64(binary.LittleEndian.Uint64(d.Peek(start+40, 8))); used > 96 && start+used <= hi {
						hi = start + used
					}
				}
				if hi > start {
					tight := hi - start + 8
					fin++
					var td *memdev.Dev
					switch kind {
					case "iso", "iso-rr":
						if img, _ := buildISOSized(tree, iso9660.FinalizeOptions{RockRidge: kind == "iso-rr"}, 2048, start, tight, true); img != nil {
							td = img.Dev
						}
					default:
						if img, _ := buildSquashSized(tree, squashfs.FinalizeOptions{NoFragments: kind == "squashfs-nofrag"}, 4096, start, tight, true); img != nil {
							td = img.Dev
						}
					}
					if td == nil {
						extraClasses["finalize-refused:"+kind+"/tight"]++
					} else if len(td.Outside) > 0 {
						o := td.Outside[0]
						r.Report(fmt.Sprintf("c03|finalize|%s|tight-range|write-outside|%s", kind, lastFrame(o.Stack)), fmt.Sprintf("%s Finalize given [%d,%d) (the image needs %d bytes) wrote %d bytes at %d; call path %s", kind, start, start+tight, hi-start, o.Len, o.Off, o.Stack), map[string]any{"kind": kind, "start": start, "size": tight})
					} else {
						finOK++
					}
				}
			}
			if len(d.Outside) > 0 {
				o := d.Outside[0]
				side := "after-end"
				if o.Off < start {
					side = "before-start"
				}
				r.Report(fmt.Sprintf("c03|finalize|%s|write-outside|%s|%s", kind, side, lastFrame(o.Stack)), fmt.Sprintf("%s Finalize given [%d,%d) wrote %d bytes at %d; call path %s", kind, start, start+size, o.Len, o.Off, o.Stack), map[string]any{"kind": kind, "start": start, "size": size})
				continue
			}
			finOK++
		}
	}
	// ---- partition tables touch only their own sectors
	var tbl, tblOK int64
	for _, c := range enumC02(true) {
		c := c
		if c.Over != "" {
			continue
		}
		tbl++
		d := memdev.New(c.DiskSize)
		prefill(d, &c)
		// data pattern in the usable area right after the primary array and right before the backup array
		pat := patternBytes(9, 4096)
		lss := int64(c.LSS)
		n := c.DiskSize / lss
		if c.Kind == "gpt" {
			d.Poke(pat, 2*lss+16384)
			d.Poke(pat, (n-1)*lss-16384-4096)
		} else {
			d.Poke(pat, 512)
		}
		before := d.Clone()
		d.Allowed = tableAllowed(&c)
		var err error
		pm := guard(func() {
			if c.Kind == "gpt" {
				err = buildGPT(&c).Write(d, c.DiskSize)
			} else {
				tb := &mbr.Table{LogicalSectorSize: c.LSS, PhysicalSectorSize: c.LSS}
				for _, p := range c.MBR {
					tb.Partitions = append(tb.Partitions, &mbr.Partition{Index: p.Index, Type: mbr.Type(p.Type), Bootable: p.Bootable, Start: p.Start, Size: p.Size})
				}
				err = tb.Write(d, c.DiskSize)
			}
		})
		if pm != "" {
			continue // judged by C02
		}
		_ = err
		if len(d.Outside) > 0 {
			o := d.Outside[0]
			r.Report("c03|table|"+c.Kind+"|write-outside|"+lastFrame(o.Stack), fmt.Sprintf("%s Table.Write wrote %d bytes at offset %d, outside the table's own sectors", c.Kind, o.Len, o.Off), c)
			continue
		}
		// everything outside the allowed ranges must be byte-identical (boot code, partition data)
		bad := int64(-1)
		for _, probe := range []memdev.Range{{Lo: 0, Hi: 446}, {Lo: 512, Hi: lss}, {Lo: 2*lss + 16384, Hi: 2*lss + 16384 + 4096}, {Lo: (n-1)*lss - 16384 - 4096, Hi: (n-1)*lss - 16384}} {
			if c.Kind == "mbr" && probe.Lo >= 1024 {
				continue
			}
			if probe.Hi <= probe.Lo || probe.Hi > c.DiskSize || probe.Lo < 0 {
				continue
			}
			overlap := false
			for _, a := range d.Allowed {
				if probe.Lo < a.Hi && a.Lo < probe.Hi {
					overlap = true
				}
			}
			if overlap {
				continue // on the smallest disks the probe would sit inside the table itself
			}
			if string(d.Peek(probe.Lo, int(probe.Hi-probe.Lo))) != string(before.Peek(probe.Lo, int(probe.Hi-probe.Lo))) {
				bad = probe.Lo
			}
		}
		if bad >= 0 {
			r.Report("c03|table|"+c.Kind+"|collateral-change", fmt.Sprintf("%s Table.Write changed bytes near offset %d that do not belong to the table", c.Kind, bad), c)
			continue
		}
		tblOK++
	}
	// ---- the same for tables that were read from a disk partitioned by another tool (other entry-array sizes; first
	// usable sector directly behind a short array) and are written back, unchanged or modified
	var frn, frnOK int64
	for _, fc := range enumForeign(r.Quick()) {
		fc := fc
		res := runForeignCase(&fc)
		if res.Outcome != "ok" && res.Outcome != "write-refused" {
			continue
		}
		frn++
		if res.C03Sig != "" {
			r.Report(res.C03Sig, res.C03Msg, map[string]any{"foreign": fc})
			continue
		}
		frnOK++
	}
	// ---- writing partition contents changes only bytes of that partition (the C13 geometries and reader shapes, judged
	// here only by the write monitor and the byte comparison outside the partition)
	var pio, pioOK int64
	pcases := enumC13(r.Quick())
	var pmu sync.Mutex
	parallel(len(pcases), r.OutOfTime, func(i int) {
		c := &pcases[i]
		if c.Op != "write" || c.Sectors > 1<<20 {
			return
		}
		sig, msg, out := runPartioCase(c)
		pmu.Lock()
		defer pmu.Unlock()
		if out == "n/a" || strings.HasPrefix(out, "setup") {
			return
		}
		pio++
		if strings.Contains(sig, "outside") {
			r.Report("c03|partition-contents|"+strings.TrimPrefix(sig, "write|"), msg, c)
			return
		}
		pioOK++
	})
	_ = gpt.Unused
	t := runFatScens(r, c03Scens(r.Quick()), false)
	for k, v := range extraClasses {
		t.classes[k] += v
	}
	t.write(r)
	r.Set("partition_content_cases", pio)
	r.Set("partition_content_cases_inside_partition", pioOK)
	r.Set("finalize_cases", fin)
	r.Set("finalize_cases_inside_range", finOK)
	r.Set("foreign_table_cases", frn)
	r.Set("foreign_table_cases_only_own_sectors", frnOK)
	r.Set("table_cases", tbl)
	r.Set("table_cases_only_own_sectors", tblOK)
	r.Assume("memdev range monitor: every WriteAt that reaches the device is checked against [start,start+size) (tables: the table's own sectors); guard regions are compared as a second opinion")
}

func buildISOMonitored(t *treeSpec, opts iso9660.FinalizeOptions, blocksize, start int64) (*isoImage, error) {
	return buildISOWith(t, opts, blocksize, start, true)
}

func buildSquashMonitored(t *treeSpec, opts squashfs.FinalizeOptions, blocksize, start int64) (*sqImage, error) {
	return buildSquashWith(t, opts, blocksize, start, true)
}

var _ = strings.Contains
