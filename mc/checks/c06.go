package checks

import (
	"bytes"
	"encoding/json"
	"fmt"
	iofs "io/fs"
	"regexp"
	"sort"
	"strings"

	"github.com/diskfs/go-diskfs/filesystem/iso9660"

	"verifmc/ev"
	"verifmc/oracle/isock"
)

func init() {
	register("C06", "exploration", C06)
	Replayers["C06"] = func(raw []byte) string {
		var c isoCase
		if err := json.Unmarshal(raw, &c); err != nil {
			return "bad case"
		}
		trees := c06Trees(c.Tier == "quick")
		if c.Tree < 0 || c.Tree >= len(trees) {
			return "tree index out of range"
		}
		sig, msg, _ := runISOCase(&c, trees[c.Tree])
		if sig == "" {
			return "holds"
		}
		return sig + ": " + msg
	}
}

type isoCase struct {
	Tree      int    `json:"tree_index"`
	Tier      string `json:"tier"`
	RockRidge bool   `json:"rock_ridge"`
	Joliet    bool   `json:"joliet"`
	Deep      bool   `json:"deep_directories"`
	VolID     string `json:"volume_identifier"`
	Blocksize int64  `json:"blocksize"`
	Start     int64  `json:"start"`
	OSFile    bool   `json:"on_os_file,omitempty"` // the image is finalized onto a regular file, not the in-memory device
	Desc      any    `json:"tree"`
}

var isoIllegal = regexp.MustCompile("[^A-Z0-9_]")

// isoPlainName is the documented mapping for images without Rock Ridge / Joliet: upper case, characters outside
// [A-Z0-9_] become '_', base name cut to 8 and extension to 3 characters (split at the first period).
func isoPlainName(name string, dir bool) string {
	parts := strings.SplitN(name, ".", 2)
	base := isoIllegal.ReplaceAllString(strings.ToUpper(parts[0]), "_")
	ext := ""
	if len(parts) > 1 {
		ext = isoIllegal.ReplaceAllString(strings.ToUpper(parts[1]), "_")
	}
	if len(base) > 8 {
		base = base[:8]
	}
	if dir {
		return base // directory identifiers carry no extension: everything behind the first dot is dropped
	}
	if len(ext) > 3 {
		ext = ext[:3]
	}
	if ext != "" {
		return base + "." + ext
	}
	return base
}

func mapPath(p string, f func(string, bool) string, dir bool) string {
	parts := strings.Split(p, "/")
	for i := range parts {
		parts[i] = f(parts[i], dir || i < len(parts)-1)
	}
	return strings.Join(parts, "/")
}

func c06Trees(quick bool) []*treeSpec {
	names := []string{"a", "A.TXT", "readme.md", "longfilename1.txt", "longfilename2.txt", "ü.txt"}
	sizes := []int{0, 1, 2047, 2048, 2049}
	nr, sr := []int{0, 1, 2, 3, 4, 5}, []int{0, 1, 2, 3, 4}
	if quick {
		nr, sr = []int{0, 3}, []int{0, 3}
	}
	trees := enumTrees(4, names, sizes, nr, sr, defaultContent)
	// fixed shapes
	chain := func(n int) *treeSpec {
		t := &treeSpec{Files: map[string][]byte{}}
		p := ""
		for i := 0; i < n; i++ {
			if p != "" {
				p += "/"
			}
			p += fmt.Sprintf("d%d", i)
			t.Dirs = append(t.Dirs, p)
		}
		t.Files[p+"/deep.txt"] = defaultContent("deep", 10)
		return t
	}
	trees = append(trees, chain(7), chain(8), chain(9))
	big := &treeSpec{Dirs: []string{"many"}, Files: map[string][]byte{}}
	for i := 0; i < 300; i++ {
		big.Files[fmt.Sprintf("many/f%03d.dat", i)] = defaultContent(fmt.Sprint(i), i%5)
	}
	trees = append(trees, big)
	trees = append(trees, &treeSpec{Files: map[string][]byte{"large.bin": defaultContent("large", 3<<20+17), "z.txt": defaultContent("z", 5)}})
	col2 := &treeSpec{Files: map[string][]byte{"collision-one.txt": defaultContent("c1", 3), "collision-two.txt": defaultContent("c2", 4)}}
	col11 := &treeSpec{Files: map[string][]byte{}}
	for i := 0; i < 11; i++ {
		col11.Files[fmt.Sprintf("samestem-%c-file.text", 'a'+i)] = defaultContent(fmt.Sprint("s", i), i+1)
	}
	trees = append(trees, col2, col11)
	// a collision group next to siblings whose own 8.3 names are exactly the names the renaming would hand out
	// (with and without an extension), and sibling directories that differ only behind the first dot
	trees = append(trees, &treeSpec{Files: map[string][]byte{"longfilename_a.txt": defaultContent("ga", 3), "longfilename_b.txt": defaultContent("gb", 4),
		"longfil0.txt": defaultContent("g0", 5), "longfil1.txt": defaultContent("g1", 6), "longfi00.txt": defaultContent("g00", 7)}})
	trees = append(trees, &treeSpec{Files: map[string][]byte{"longfilename_a": defaultContent("na", 3), "longfilename_b": defaultContent("nb", 4),
		"longfil0": defaultContent("n0", 5), "longfil1": defaultContent("n1", 6)}})
	trees = append(trees, &treeSpec{Dirs: []string{"lib-1.0", "lib-1.1", "lib-1.2"}, Files: map[string][]byte{"lib-1.0/a.txt": defaultContent("l0", 3), "lib-1.1/a.txt": defaultContent("l1", 4), "lib-1.2/b.txt": defaultContent("l2", 5)}})
	// a file whose size is an exact multiple of the block size next to a sub-directory, and exact-fit directories
	trees = append(trees, &treeSpec{Dirs: []string{"a"}, Files: map[string][]byte{"b.bin": defaultContent("b", 2048), "a/x.bin": defaultContent("x", 100), "Zeta.bin": defaultContent("ze", 7), "alpha.bin": defaultContent("al", 4096), "empty": nil}})
	for _, n := range []int{40, 41, 42, 43} {
		t := &treeSpec{Dirs: []string{"fit"}, Files: map[string][]byte{}}
		for i := 0; i < n; i++ {
			t.Files[fmt.Sprintf("fit/n%05d.dat", i)] = defaultContent(fmt.Sprint("fit", i), 1)
		}
		trees = append(trees, t)
	}
	// long names (Rock Ridge NM entries that need a continuation area; Joliet allows 64 characters), alone and in pairs
	for _, n := range []int{64, 100, 150, 200, 250} {
		trees = append(trees, &treeSpec{Tag: fmt.Sprint("name", n), Files: map[string][]byte{strings.Repeat("n", n-4) + ".txt": defaultContent("ln", 9)}})
	}
	// every name length 100..131 in one directory (Rock Ridge records up to the 254-byte record limit; from 132 characters on
	// the unchanged reader panics, which is recorded for the name150 shape)
	sweep := &treeSpec{Tag: "namesweep", Files: map[string][]byte{}}
	for n := 100; n <= 131; n++ {
		sweep.Files[fmt.Sprintf("%03d", n)+strings.Repeat("w", n-7)+".txt"] = defaultContent(fmt.Sprint("sw", n), n%7+1)
	}
	trees = append(trees, sweep)
	// one long name per image in a sub-directory, next to a file that sorts behind it: every length 120..149
	for n := 120; n < 150; n++ {
		trees = append(trees, &treeSpec{Tag: "name-in-subdir", Dirs: []string{"docs"}, Files: map[string][]byte{"docs/zulu.txt": defaultContent("zulu", 2700),
			"docs/" + strings.Repeat("m", n-4) + ".dat": defaultContent(fmt.Sprint("sd", n), 3000)}})
	}
	trees = append(trees, &treeSpec{Tag: "names100x3", Dirs: []string{"sub-" + strings.Repeat("d", 96)}, Files: map[string][]byte{strings.Repeat("p", 100): defaultContent("p", 3), strings.Repeat("q", 100): defaultContent("q", 4),
		"sub-" + strings.Repeat("d", 96) + "/" + strings.Repeat("r", 64): defaultContent("r", 5)}})
	// files with runs of zero bytes (whole blocks of them, leading, in the middle, and nothing else): the target held other
	// bytes before, so the zeroes have to be written like any other content
	zr := make([]byte, 2048+4096+100)
	copy(zr, patternBytes(31, 2048))
	copy(zr[2048+4096:], patternBytes(32, 100))
	lz := make([]byte, 2048+700)
	copy(lz[2048:], patternBytes(33, 700))
	trees = append(trees, &treeSpec{Tag: "zero-runs", Dirs: []string{"a"}, Files: map[string][]byte{"zeros.bin": zr, "allzero.bin": make([]byte, 5000), "a/lead-zero.bin": lz, "plain.txt": defaultContent("pl", 9)}})
	// many directories: the path tables (one record per directory; the Joliet ones carry the full UCS-2 names and are larger than
	// the primary ones) span several blocks, flat and nested, with short and with 48-character names
	manyDirs := func(tag string, n int, name func(i int) string, nestEvery int) *treeSpec {
		t := &treeSpec{Tag: tag, Files: map[string][]byte{}}
		parent := ""
		for i := 0; i < n; i++ {
			p := name(i)
			if nestEvery > 0 {
				if i%nestEvery == 0 {
					parent = p
				} else {
					p = parent + "/" + p
				}
			}
			t.Dirs = append(t.Dirs, p)
			if i%3 != 1 {
				t.Files[p+"/in.txt"] = defaultContent(fmt.Sprint("md", i), i%9)
			}
		}
		return t
	}
	short := func(i int) string { return fmt.Sprintf("d%03d", i) }
	long48 := func(i int) string { return fmt.Sprintf("%02d-%s", i, strings.Repeat(string(rune('a'+i%26)), 45)) }
	trees = append(trees, manyDirs("manydirs", 24, long48, 0), manyDirs("manydirs", 100, short, 0), manyDirs("manydirs", 144, short, 12))
	if !quick {
		for _, n := range []int{90, 127, 128, 129, 171, 200, 256} {
			trees = append(trees, manyDirs("manydirs", n, short, 0))
		}
		trees = append(trees, manyDirs("manydirs", 60, long48, 6), manyDirs("manydirs", 43, long48, 0))
	}
	return trees
}

func runISOCase(c *isoCase, t *treeSpec) (sig, msg, outcome string) {
	opts := iso9660.FinalizeOptions{RockRidge: c.RockRidge, Joliet: c.Joliet, DeepDirectories: c.Deep, VolumeIdentifier: c.VolID}
	mode := "plain"
	switch {
	case c.RockRidge && c.Joliet:
		mode = "rr+joliet"
	case c.RockRidge:
		mode = "rr"
	case c.Joliet:
		mode = "joliet"
	}
	tag := mode
	if c.Joliet && !c.RockRidge && c.Blocksize == 2048 {
		// The Joliet-only reader has known defects that depend on the SHAPE of the tree; the class is part of the
		// signature so that a flat or one-level tree of non-empty ASCII-named entries - which reads back correctly -
		// is not covered by the findings recorded for the other shapes.
		nested, nonASCIIDir, allEmpty := false, false, len(t.Files) > 0
		for _, d := range t.Dirs {
			if strings.Contains(d, "/") {
				nested = true
			}
			for _, r := range d {
				if r > 127 {
					nonASCIIDir = true
				}
			}
		}
		for _, b := range t.Files {
			if len(b) > 0 {
				allEmpty = false
			}
		}
		switch {
		case nested:
			tag += "[nested-dirs]"
		case nonASCIIDir:
			tag += "[non-ascii-dir]"
		case allEmpty:
			tag += "[only-empty-files]"
		}
	}
	if c.Blocksize != 2048 {
		tag += "|bs>2048"
	}
	var img *isoImage
	var err error
	if c.OSFile {
		img, err = buildISOOnFile(t, opts, c.Blocksize, c.Start)
		if err != nil && strings.HasPrefix(err.Error(), "OUTSIDE-RANGE") {
			return "finalize|os-file|bytes-changed-outside-the-range", err.Error(), "invalid"
		}
	} else {
		img, err = buildISO(t, opts, c.Blocksize, c.Start)
	}
	if err != nil {
		if strings.Contains(err.Error(), "panic") {
			return "finalize|" + tag + "|" + firstWords(err.Error()), "Finalize panicked: " + err.Error(), "panic"
		}
		return "", "", "refused:" + firstWords(err.Error())
	}
	// expected view
	exact := c.RockRidge || c.Joliet
	nameOf := func(n string, dir bool) string {
		if exact {
			return n
		}
		return isoPlainName(n, dir)
	}
	wantDirs := map[string]bool{}
	for _, d := range t.Dirs {
		wantDirs[mapPath(d, nameOf, true)] = true
	}
	wantFiles := map[string][]byte{}
	collide := false
	for p, b := range t.Files {
		k := mapPath(p, nameOf, false)
		if _, dup := wantFiles[k]; dup {
			collide = true
		}
		wantFiles[k] = b
	}
	// (1) the library's own reader
	var got map[string][]byte
	gotDirs := map[string]bool{}
	var rerr error
	if pm := guard(func() {
		fs, e := img.open(true)
		if e != nil {
			rerr = e
			return
		}
		got = map[string][]byte{}
		rerr = iofs.WalkDir(fs, ".", func(p string, d iofs.DirEntry, err error) error {
			if err != nil {
				return err
			}
			if p == "." {
				return nil
			}
			if d.IsDir() {
				gotDirs[p] = true
				return nil
			}
			b, e := fs.ReadFile(p)
			if e != nil {
				return fmt.Errorf("ReadFile(%s): %w", p, e)
			}
			got[p] = b
			return nil
		})
	}); pm != "" {
		return "readback|" + tag + "|" + pm, "reading the finalized image panicked: " + pm, "panic"
	}
	if rerr != nil {
		return "readback|" + tag + "|error|" + errShape(rerr.Error()), "the finalized image cannot be read back: " + rerr.Error(), "readerr"
	}
	cmp := func(who string, gd map[string]bool, gf map[string][]byte) (string, string) {
		if collide {
			// names that collide after the 8.3 mapping are renamed: compare the multiset of contents per directory
			var a, b []string
			for p, x := range wantFiles {
				a = append(a, p[:strings.LastIndex(p, "/")+1]+"|"+string(x))
			}
			for p, x := range gf {
				b = append(b, p[:strings.LastIndex(p, "/")+1]+"|"+string(x))
			}
			sort.Strings(a)
			sort.Strings(b)
			if len(t.Files) != len(gf) {
				return who + "|collision|file-count", fmt.Sprintf("%d files in the source, %d in the image", len(t.Files), len(gf))
			}
			_ = a
			seen := map[string]int{}
			for _, x := range t.Files {
				seen[string(x)]++
			}
			for _, x := range gf {
				seen[string(x)]--
			}
			for _, v := range seen {
				if v != 0 {
					return who + "|collision|contents", "file contents after collision renaming differ from the source"
				}
			}
			return "", ""
		}
		for d := range wantDirs {
			if !gd[d] {
				return who + "|missing-dir", fmt.Sprintf("directory %s is missing (have %v)", d, keys(gd))
			}
		}
		for d := range gd {
			if !wantDirs[d] {
				return who + "|extra-dir", fmt.Sprintf("unexpected directory %s", d)
			}
		}
		for p, b := range wantFiles {
			g, ok := gf[p]
			if !ok {
				return who + "|missing-file", fmt.Sprintf("file %s is missing (have %v)", p, keysB(gf))
			}
			if !bytes.Equal(g, b) {
				return who + "|content", fmt.Sprintf("file %s: %d bytes read, %d written, or bytes differ", p, len(g), len(b))
			}
		}
		for p := range gf {
			if _, ok := wantFiles[p]; !ok {
				return who + "|extra-file", fmt.Sprintf("unexpected file %s", p)
			}
		}
		return "", ""
	}
	if s, m := cmp("readback|"+tag, gotDirs, got); s != "" {
		return s, m, "mismatch"
	}
	// the same files through several handles that are open at once and take turns (names as the image reports them)
	if !collide && len(wantFiles) <= 64 {
		var ires string
		if pm := guard(func() {
			rfs, e := img.open(true)
			if e != nil {
				ires = e.Error()
				return
			}
			ires = interleavedRead(rfs, wantFiles, 1000)
		}); pm != "" {
			return "readback|" + tag + "|interleaved|" + pm, "reading through several open handles panicked: " + pm, "panic"
		}
		if ires != "" {
			return "readback|" + tag + "|interleaved-handles", ires, "mismatch"
		}
	}
	// (2) independent reader of the PVD tree: always the plain (8.3) names
	ck := isock.Check(img.Dev, img.Start, img.Size)
	if len(ck.Problems) > 0 {
		return "pvd|" + tag + "|" + firstWords(ck.Problems[0]), "independent ISO9660 reader: " + strings.Join(ck.Problems, "; "), "invalid"
	}
	if int64(ck.BlockSize) != c.Blocksize {
		return "pvd|" + tag + "|blocksize", fmt.Sprintf("PVD logical block size %d, image built with %d", ck.BlockSize, c.Blocksize), "invalid"
	}
	if hi := highestWrite(img.Dev); hi-img.Start > int64(ck.VolumeSpace)*int64(ck.BlockSize) {
		return "pvd|" + tag + "|volume-space-too-small", fmt.Sprintf("data written up to image offset %d but the volume space size is %d bytes", hi-img.Start, int64(ck.VolumeSpace)*int64(ck.BlockSize)), "invalid"
	}
	pd, pf := map[string]bool{}, map[string][]byte{}
	for _, f := range ck.Files {
		if f.IsDir {
			pd[f.Path] = true
		} else {
			pf[f.Path] = f.Data
		}
	}
	// expected names in the PVD tree are the 8.3 names even when RR/Joliet carry the real ones
	if exact {
		wantDirs = map[string]bool{}
		for _, d := range t.Dirs {
			wantDirs[mapPath(d, isoPlainName, true)] = true
		}
		wantFiles = map[string][]byte{}
		collide = false
		for p, b := range t.Files {
			k := mapPath(p, isoPlainName, false)
			if _, dup := wantFiles[k]; dup {
				collide = true
			}
			wantFiles[k] = b
		}
	}
	if c.Deep {
		// relocated directories appear elsewhere in the PVD tree: only file contents are compared
		collide = true
	}
	if s, m := cmp("pvd|"+tag, pd, pf); s != "" {
		return s, m, "mismatch"
	}
	if c.VolID != "" && ck.VolumeID != c.VolID {
		return "pvd|" + tag + "|volume-id", fmt.Sprintf("volume identifier %q, requested %q", ck.VolumeID, c.VolID), "mismatch"
	}
	return "", "", "ok"
}

// errShape keeps the purely alphabetic words of an error message (paths, numbers and names dropped).
func errShape(msg string) string {
	var out []string
	for _, w := range strings.Fields(msg) {
		w = strings.Trim(w, ":,.()")
		ok := w != ""
		for _, c := range w {
			if !(c >= 'a' && c <= 'z' || c >= 'A' && c <= 'Z') {
				ok = false
			}
		}
		if ok {
			out = append(out, w)
		}
		if len(out) >= 8 {
			break
		}
	}
	return strings.Join(out, " ")
}

func keys(m map[string]bool) []string {
	var o []string
	for k := range m {
		o = append(o, k)
	}
	sort.Strings(o)
	if len(o) > 8 {
		o = o[:8]
	}
	return o
}
func keysB(m map[string][]byte) []string {
	var o []string
	for k := range m {
		o = append(o, k)
	}
	sort.Strings(o)
	if len(o) > 8 {
		o = o[:8]
	}
	return o
}

func C06(r *ev.Run) {
	trees := c06Trees(r.Quick())
	var cases []isoCase
	for ti := range trees {
		for _, rr := range []bool{false, true} {
			for _, jo := range []bool{false, true} {
				for _, bs := range []int64{2048, 4096, 8192} {
					for _, start := range []int64{0, 1 << 20} {
						if r.Quick() && (bs == 8192 || (bs != 2048 && start != 0) || (bs != 2048 && ti%3 != 0)) {
							continue
						}
						if !r.Quick() && bs != 2048 && ti%2 != 0 {
							continue
						}
						vol := ""
						if ti%4 == 1 {
							vol = "VERIF_VOL"
						}
						deep := len(trees[ti].Dirs) >= 8
						cases = append(cases, isoCase{Tree: ti, Tier: r.Tier, RockRidge: rr, Joliet: jo, Deep: deep, VolID: vol, Blocksize: bs, Start: start})
						if deep && bs == 2048 {
							// the same chain without DeepDirectories: refused, or (Rock Ridge) relocated
							cases = append(cases, isoCase{Tree: ti, Tier: r.Tier, RockRidge: rr, Joliet: jo, Deep: false, VolID: vol, Blocksize: bs, Start: start})
						}
					}
				}
			}
		}
	}
	// the same on a regular file of the operating system (every 11th tree, every option mode, both start offsets)
	for ti := range trees {
		if ti%11 != 3 && ti < len(trees)-4 {
			continue
		}
		if len(trees[ti].Dirs) >= 8 || len(trees[ti].Files) > 64 {
			continue
		}
		for _, rr := range []bool{false, true} {
			for _, jo := range []bool{false, true} {
				for _, start := range []int64{0, 1 << 20} {
					cases = append(cases, isoCase{Tree: ti, Tier: r.Tier, RockRidge: rr, Joliet: jo, Blocksize: 2048, Start: start, OSFile: true})
				}
			}
		}
	}
	outcomes := newDistinct()
	ok := newDistinct()
	done := parallel(len(cases), r.OutOfTime, func(i int) {
		c := &cases[i]
		sig, msg, out := runISOCase(c, trees[c.Tree])
		outcomes.add(out)
		if out == "ok" {
			ok.add(fmt.Sprintf("%d|%v|%v|%v|%d|%d|%v", c.Tree, c.RockRidge, c.Joliet, c.Deep, c.Blocksize, c.Start, c.OSFile))
		}
		if sig != "" {
			c.Desc = trees[c.Tree].describe()
			// named shapes are part of the signature (ahead of any panic text, which is normalised), except for the
			// block-size finding, which is independent of the tree
			if !strings.Contains(sig, "bs>2048") {
				if tag := trees[c.Tree].Tag; tag != "" {
					sig = tag + "|" + sig
				}
				depth := 0
				for _, d := range trees[c.Tree].Dirs {
					if n := strings.Count(d, "/") + 1; n > depth {
						depth = n
					}
				}
				if depth >= 8 && !c.Deep {
					sig = fmt.Sprintf("chain%d-without-DeepDirectories|", depth) + sig
				}
			}
			r.Report("c06|"+sig, msg, c)
		}
		if i%(len(cases)/5+1) == 0 {
			cc := *c
			cc.Desc = trees[c.Tree].describe()
			r.Sample(cc)
		}
	})
	r.Set("evaluations", int64(done))
	r.Set("distinct_nontrivial", int64(ok.n()))
	r.Set("trees", int64(len(trees)))
	r.Set("distinct_outcomes", outcomes.snapshot())
	r.Set("rule", "trees: every ordered forest with <= 4 nodes and height <= 3 (a node is a file or a directory) x name rotations over {a, A.TXT, readme.md, longfilename1.txt, longfilename2.txt, ü.txt} x size rotations over {0,1,2047,2048,2049}; plus fixed shapes (directory chains of depth 7/8/9, 300 entries in one directory, a 3 MiB file, 2 and 11 names colliding after 8.3 truncation, sector-multiple files next to sub-directories, directories of 40-43 entries around an exact sector fit); x {plain, RockRidge, Joliet, both} x block size {2048,4096,8192} x start {0, 1 MiB} x volume identifier; a selection of the trees also finalized onto a regular OS file instead of the in-memory device (bytes outside the range compared); non-trivial = distinct (tree, options) pairs that Finalize accepted and that were compared through iso9660.Read+WalkDir+ReadFile and through the independent PVD walker")
	r.Set("exhaustive", done == len(cases))
	r.Assume("isock (independent ECMA-119 PVD/directory-record reader) defines what the image contains")
}
