package checks

import (
	"encoding/json"
	"fmt"
	"strings"
	"sync"

	"verifmc/ev"
	"verifmc/explore"
)

// fatScenario builds the Engine-A scenario: (configuration, prefix script, alphabet, depth) judged by one oracle.
type fatScen struct {
	Name      string
	Cfg       fatCfg
	Prefix    []fsOp
	Letters   []fsOp
	Depth     int
	Oracle    string // model | fatck | range
	MaxStates int
	CanonFree bool
	// BadLow, when > 0, prepares a non-initial state after Create: clusters 3..BadLow are marked as bad clusters in
	// both FAT copies and the volume is re-opened, so every allocation lands above BadLow (cluster numbers that
	// need the high 16 bits of a FAT32 directory entry).
	BadLow int
}

// acceptance memory for the differential oracle "the same logical state accepts the same operations"
type acceptMemo struct {
	mu sync.Mutex
	m  map[[32]byte]map[uint16]acceptRec
}
type acceptRec struct {
	ok   bool
	hist []uint16
}

func (sc *fatScen) letterNames() []string {
	out := make([]string, len(sc.Letters))
	for i, l := range sc.Letters {
		out[i] = l.String()
	}
	return out
}

func opTargets(op fsOp) []string {
	switch op.Kind {
	case "rename":
		return []string{op.Path, op.Path2}
	case "mkdir":
		// mkdir -p may create any prefix
		return []string{strings.Split(op.Path, "/")[0]}
	case "reopen", "readpartial":
		return nil
	case "symlink":
		return []string{op.Path}
	}
	return []string{op.Path}
}

func (sc *fatScen) scenario(memo *acceptMemo) explore.Scenario {
	run := func(hist []uint16) explore.Outcome {
		var out explore.Outcome
		s, err := newFatSys(sc.Cfg, sc.Oracle)
		if err != nil {
			out.Class = "create-refused:" + errClass(err)
			out.Prune = true
			// Create may refuse a size (the properties quantify over what it accepts); it must not panic
			if strings.Contains(err.Error(), "panic") {
				out.Viols = append(out.Viols, explore.Viol{Sig: "create|" + firstWords(err.Error()), Msg: sc.Cfg.String() + ": " + err.Error()})
			}
			return out
		}
		s.canonFree = sc.CanonFree
		if sc.BadLow > 0 {
			if err := s.markBadLow(sc.BadLow); err != nil {
				out.Prune = true
				out.Viols = append(out.Viols, explore.Viol{Sig: "infra|prepare", Msg: err.Error()})
				return out
			}
		}
		add := func(v ...explore.Viol) { out.Viols = append(out.Viols, v...) }
		for _, op := range sc.Prefix {
			if e, _ := s.apply(op); e != nil {
				add(explore.Viol{Sig: "infra|prefix-failed", Msg: fmt.Sprintf("%s prefix op %s: %v", sc.Name, op, e)})
				out.Prune = true
				return out
			}
		}
		var lastOp fsOp
		judge := func(after string, opErr error, targets []string) {
			switch sc.Oracle {
			case "fatck":
				add(s.fatckViols(after)...)
			case "range":
				add(s.rangeViols(after)...)
			case "e2fsck":
				add(s.e2fsckViols(after)...)
			case "digest":
				d := s.dev.DigestRange(s.cfg.Start, s.cfg.Start+s.cfg.Size)
				out.Aux = fmt.Sprintf("%x", d[:12])
			case "model":
				skip := map[string]bool{}
				if opErr != nil {
					for _, t := range targets {
						skip[s.model.key(t)] = true
					}
				}
				errTag := ""
				if opErr != nil {
					errTag = "|after-refused"
				}
				var live map[string]viewNode
				var verr error
				if pm := guard(func() { live, verr = fsView(s.fs, s.model.caseFold, 700, 1<<25) }); pm != "" {
					add(explore.Viol{Sig: "live|" + pm, Msg: fmt.Sprintf("%s after %s: walking the live filesystem panicked: %s", sc.Cfg, after, pm)})
					return
				}
				if verr != nil {
					add(explore.Viol{Sig: "live|walk-error|" + firstWords(verr.Error()) + "|after=" + after + errTag, Msg: fmt.Sprintf("%s after %s: %v", sc.Cfg, after, verr)})
				} else if cl, det := compareView(s.model, live, skip); cl != "" {
					add(explore.Viol{Sig: "live|" + cl + "|after=" + after + errTag, Msg: fmt.Sprintf("%s after %s (live handle): %s", sc.Cfg, after, det)})
				}
				var rv map[string]viewNode
				var rerr error
				if pm := guard(func() {
					rfs, e := fatRead(sc.Cfg, s.dev, true)
					if e != nil {
						rerr = e
						return
					}
					rv, rerr = fsView(rfs, s.model.caseFold, 1<<16, 1<<25)
				}); pm != "" {
					add(explore.Viol{Sig: "reopened|" + pm, Msg: fmt.Sprintf("%s after %s: reading the re-opened image panicked: %s", sc.Cfg, after, pm)})
					return
				}
				if rerr != nil {
					add(explore.Viol{Sig: "reopened|walk-error|" + firstWords(rerr.Error()) + "|after=" + after + errTag, Msg: fmt.Sprintf("%s after %s (re-opened from bytes): %v", sc.Cfg, after, rerr)})
				} else if cl, det := compareView(s.model, rv, skip); cl != "" {
					add(explore.Viol{Sig: "reopened|" + cl + "|after=" + after + errTag, Msg: fmt.Sprintf("%s after %s (re-opened from bytes): %s", sc.Cfg, after, det)})
				}
				if opErr != nil && verr == nil {
					// the file a refused write / append was aimed at may have taken part of the new bytes (its view is
					// re-synchronised below), but what it held BEFORE the call outside the written range must still be there
					if lastOp.Kind == "write" || lastOp.Kind == "append" {
						if old := s.model.get(lastOp.Path); old != nil && !old.Dir && old.Link == "" {
							cur := len(old.Data)
							off, ln := s.resolveOff(lastOp.Off, cur), s.resolveLen(lastOp.Len, cur)
							if lastOp.Kind == "append" {
								off = cur
							}
							if now, ok := live[s.model.key(lastOp.Path)]; !ok {
								add(explore.Viol{Sig: "refused-call|file-vanished|" + lastOp.Kind, Msg: fmt.Sprintf("%s after the refused %s: the file it was aimed at is gone", sc.Cfg, lastOp)})
							} else {
								for i := 0; i < cur; i++ {
									if i >= off && i < off+ln {
										continue
									}
									if i >= len(now.Data) || now.Data[i] != old.Data[i] {
										add(explore.Viol{Sig: "refused-call|old-content-lost|" + lastOp.Kind, Msg: fmt.Sprintf("%s after the refused %s: byte %d of the %d bytes the file held before the call (outside the range the call writes) is no longer there (file now %d bytes)", sc.Cfg, lastOp, i, cur, len(now.Data))})
										break
									}
								}
							}
						}
					}
					s.resync(live, targets...)
					// FAT only (C01 speaks of reading back "through the same handle" and of refused calls; C04 does not)
					if rv := s.shRefused; rv != nil && sc.Cfg.Type != 4 {
						if n := s.model.get(rv.path); n != nil && !n.Dir {
							switch {
							case rv.err != nil:
								add(explore.Viol{Sig: "same-handle|after-refused|read-error", Msg: fmt.Sprintf("%s after %s: the handle whose Write was refused cannot be read back: %v", sc.Cfg, after, rv.err)})
							case string(rv.data) != string(n.Data):
								add(explore.Viol{Sig: "same-handle|after-refused|content", Msg: fmt.Sprintf("%s after %s: the handle whose Write was refused shows %d bytes, a fresh handle on the same file shows %d (first difference at %d)", sc.Cfg, after, len(rv.data), len(n.Data), firstDiff(rv.data, n.Data))})
							case rv.size >= 0 && rv.size != int64(len(n.Data)):
								add(explore.Viol{Sig: "same-handle|after-refused|size", Msg: fmt.Sprintf("%s after %s: the handle whose Write was refused reports size %d, the file has %d bytes", sc.Cfg, after, rv.size, len(n.Data))})
							}
						}
					}
				}
			}
		}
		if len(hist) == 0 {
			judge("create", nil, nil)
			out.Class = "created"
			out.Key = s.key()
			return out
		}
		for i, l := range hist {
			op := sc.Letters[l]
			last := i == len(hist)-1
			var before [32]byte
			if last && memo != nil {
				before = s.model.digest()
			}
			e, v := s.apply(op)
			if !last {
				if e != nil && sc.Oracle == "model" {
					// keep the model in step exactly as the judged run did
					if live, verr := fsView(s.fs, s.model.caseFold, 700, 1<<25); verr == nil {
						s.resync(live, opTargets(op)...)
					}
				}
				continue
			}
			for _, x := range v {
				// the reference-model clauses of apply() belong to C01; the other oracles keep only panics
				if sc.Oracle == "model" || strings.Contains(x.Sig, "panic") {
					add(x)
				}
			}
			if e == nil {
				out.Class = "ok:" + op.Kind
			} else {
				out.Class = "refused:" + op.Kind + ":" + firstWords(e.Error())
			}
			lastOp = op
			judge(op.Kind+kindDetail(op), e, opTargets(op))
			if memo != nil && (op.Kind == "write" || op.Kind == "append" || op.Kind == "create" || op.Kind == "mkdir") && (e == nil || strings.Contains(e.Error(), "space")) {
				memo.mu.Lock()
				mm := memo.m[before]
				if mm == nil {
					mm = map[uint16]acceptRec{}
					memo.m[before] = mm
				}
				if prev, ok := mm[l]; ok {
					if prev.ok != (e == nil) {
						a, b := prev.hist, hist
						if !prev.ok {
							a, b = b, a
						}
						add(explore.Viol{Sig: "history-dependent-space|" + op.Kind, Msg: fmt.Sprintf("%s: %s is accepted after %v but refused for lack of space after %v although both histories lead to the same files and directories (released space is not reusable)", sc.Cfg, op, sc.hn(a[:len(a)-1]), sc.hn(b[:len(b)-1]))})
					}
				} else {
					mm[l] = acceptRec{e == nil, append([]uint16(nil), hist...)}
				}
				memo.mu.Unlock()
			}
		}
		out.Key = s.key()
		return out
	}
	return explore.Scenario{Name: sc.Name + "/" + sc.Cfg.String(), Letters: sc.letterNames(), Run: run, MaxDepth: sc.Depth, MaxStates: sc.MaxStates}
}

func (sc *fatScen) hn(h []uint16) []string {
	o := make([]string, len(h))
	for i, x := range h {
		o[i] = sc.Letters[x].String()
	}
	return o
}

func firstDiff(a, b []byte) int {
	for i := 0; i < len(a) && i < len(b); i++ {
		if a[i] != b[i] {
			return i
		}
	}
	return min(len(a), len(b))
}

func kindDetail(op fsOp) string {
	switch op.Kind {
	case "write":
		return "@" + op.Off
	}
	return ""
}

// ---- alphabets -----------------------------------------------------------------------------------------

func fatScenarios(cfg fatCfg, oracle string, depth int, quick bool) []*fatScen {
	W := func(p, off, ln string) fsOp { return fsOp{Kind: "write", Path: p, Off: off, Len: ln} }
	var out []*fatScen
	// names: create / write / rename / remove over colliding names
	names := []string{"A.TXT", "a.txt", "longfilename1.txt", "longfilename2.txt", "a b.txt", "ab.txt", "x+y.z", "x,y.z"}
	var ln []fsOp
	for _, n := range names {
		ln = append(ln, fsOp{Kind: "create", Path: n})
	}
	ln = append(ln, W("A.TXT", "0", "5"), W("longfilename2.txt", "0", "7"), W("ab.txt", "0", "9"), W("x,y.z", "0", "11"))
	ln = append(ln, fsOp{Kind: "rename", Path: "A.TXT", Path2: "longfilename2.txt"}, fsOp{Kind: "rename", Path: "longfilename1.txt", Path2: "a.txt"},
		fsOp{Kind: "rename", Path: "a b.txt", Path2: "x+y.z"}, fsOp{Kind: "rename", Path: "longfilename2.txt", Path2: "longfilename3.txt"})
	for _, n := range []string{"a.txt", "longfilename1.txt", "ab.txt", "x+y.z"} {
		ln = append(ln, fsOp{Kind: "remove", Path: n})
	}
	ln = append(ln, fsOp{Kind: "reopen"})
	out = append(out, &fatScen{Name: "names", Cfg: cfg, Letters: ln, Depth: depth, Oracle: oracle})

	// names2: pairs that differ only beyond the third extension character, at the 8/9-character stem boundary, by
	// inner dots, and a case variant (a generated alias such as ABCDEF~1.TXT is deliberately not used as an explicit name:
	// in VFAT the alias is a second valid name of the same file)
	names2 := []string{"page.html", "page.htm", "abcdefgh.txt", "abcdefghi.txt", "ABCDEFGH.TXT", "a.b.c", "ab.c", "NOTES.TXT2"}
	var ln2 []fsOp
	for _, n := range names2 {
		ln2 = append(ln2, fsOp{Kind: "create", Path: n})
	}
	ln2 = append(ln2, W("page.htm", "0", "5"), W("abcdefghi.txt", "0", "7"), W("ABCDEFGH.TXT", "0", "9"), W("ab.c", "0", "11"), W("NOTES.TXT", "0", "3"))
	ln2 = append(ln2, fsOp{Kind: "rename", Path: "page.html", Path2: "page.htm"}, fsOp{Kind: "rename", Path: "abcdefghi.txt", Path2: "ABCDEFGH.TXT"},
		fsOp{Kind: "rename", Path: "a.b.c", Path2: "NOTES.TXT"})
	for _, n := range []string{"page.html", "abcdefgh.txt", "ABCDEFGH.TXT", "a.b.c", "NOTES.TXT2"} {
		ln2 = append(ln2, fsOp{Kind: "remove", Path: n})
	}
	ln2 = append(ln2, fsOp{Kind: "reopen"})
	out = append(out, &fatScen{Name: "names2", Cfg: cfg, Letters: ln2, Depth: depth, Oracle: oracle})

	// growshrink: offsets inside / at / past EOF x lengths around the cluster size, two files
	var lg []fsOp
	for _, o := range []string{"0", "cmid", "eof", "past"} {
		for _, l := range []string{"1", "c-1", "c+1", "2c+1"} {
			if quick && (o == "cmid" && l == "c-1" || o == "0" && l == "c+1") {
				continue
			}
			lg = append(lg, W("F1.BIN", o, l))
		}
	}
	lg = append(lg, W("f2long-name.bin", "0", "c"), W("f2long-name.bin", "past", "1"), W("f2long-name.bin", "mid", "c+1"),
		fsOp{Kind: "append", Path: "F1.BIN", Len: "c+1"}, fsOp{Kind: "append", Path: "f2long-name.bin", Len: "1"},
		fsOp{Kind: "rmw", Path: "F1.BIN", Off: "mid", Len: "7"}, fsOp{Kind: "rmw", Path: "f2long-name.bin", Off: "eof", Len: "c+1"},
		fsOp{Kind: "trunc", Path: "F1.BIN"}, fsOp{Kind: "trunc", Path: "f2long-name.bin"},
		fsOp{Kind: "remove", Path: "F1.BIN"}, fsOp{Kind: "readpartial", Path: "F1.BIN"}, fsOp{Kind: "readpartial", Path: "f2long-name.bin"}, fsOp{Kind: "reopen"})
	// the free clusters are dirty: a junk file of 24 clusters was written and removed before the exploration starts, so
	// that whatever the library hands out again without clearing (slack behind EOF, holes) shows as non-zero bytes
	dirty := []fsOp{W("JUNK.BIN", "0", "24c"), {Kind: "remove", Path: "JUNK.BIN"}}
	out = append(out, &fatScen{Name: "growshrink", Cfg: cfg, Prefix: dirty, Letters: lg, Depth: depth, Oracle: oracle})

	// dirs: nested directories, a directory already longer than one cluster (prefix state)
	var pre []fsOp
	pre = append(pre, fsOp{Kind: "mkdir", Path: "D"})
	nfill := 15
	if cfg.Type == 32 && cfg.Size > 260<<20 {
		nfill = 45 // 4 KiB clusters
	}
	for i := 0; i < nfill; i++ {
		pre = append(pre, fsOp{Kind: "create", Path: fmt.Sprintf("D/prefilled-long-name-%02d.dat", i)})
	}
	ld := []fsOp{{Kind: "mkdir", Path: "D/E"}, {Kind: "mkdir", Path: "N/sub"}, {Kind: "create", Path: "D/F.BIN"}, W("D/F.BIN", "0", "c+1"), W("D/E/deep-long-name.txt", "0", "3"),
		{Kind: "create", Path: "D/another-long-name-to-grow.txt"}, {Kind: "rename", Path: "D/F.BIN", Path2: "D/G-renamed-long.BIN"}, {Kind: "rename", Path: "D/prefilled-long-name-00.dat", Path2: "D/P.DAT"},
		{Kind: "remove", Path: "D/F.BIN"}, {Kind: "remove", Path: "D/prefilled-long-name-07.dat"}, {Kind: "remove", Path: "D/prefilled-long-name-14.dat"}, {Kind: "remove", Path: "D/E"}, {Kind: "remove", Path: "D"}, {Kind: "remove", Path: "N/sub"}, {Kind: "remove", Path: "N"},
		W("D/prefilled-long-name-03.dat", "0", "c+1"), {Kind: "reopen"}}
	out = append(out, &fatScen{Name: "dirs", Cfg: cfg, Prefix: pre, Letters: ld, Depth: depth, Oracle: oracle})
	// tails: five long names sharing one 8.3 stem, two of them removed again, so that the numeric tails in use have gaps
	// (~1 ~3 ~5): the next aliases must be chosen the same way every time and must never collide
	var pt []fsOp
	for i := 1; i <= 5; i++ {
		pt = append(pt, W(fmt.Sprintf("longfilename%d.txt", i), "0", fmt.Sprint(i)))
	}
	pt = append(pt, fsOp{Kind: "remove", Path: "longfilename2.txt"}, fsOp{Kind: "remove", Path: "longfilename4.txt"})
	lt := []fsOp{{Kind: "create", Path: "longfilename6.txt"}, {Kind: "create", Path: "longfilename7.txt"}, W("longfilename8.txt", "0", "9"), {Kind: "remove", Path: "longfilename3.txt"},
		{Kind: "rename", Path: "longfilename5.txt", Path2: "longfilename9.txt"}, {Kind: "rename", Path: "longfilename1.txt", Path2: "longfilename6.txt"}, W("longfilename6.txt", "0", "7"), {Kind: "reopen"}}
	out = append(out, &fatScen{Name: "tails", Cfg: cfg, Prefix: pt, Letters: lt, Depth: depth, Oracle: oracle})

	return out
}

// fatHighClusterScenario: FAT32 with more than 65536 clusters where every free cluster is above 65536.
func fatHighClusterScenario(oracle string, depth int) *fatScen {
	W := func(p, off, ln string) fsOp { return fsOp{Kind: "write", Path: p, Off: off, Len: ln} }
	l := []fsOp{{Kind: "mkdir", Path: "D"}, {Kind: "create", Path: "D/A.BIN"}, W("D/A.BIN", "0", "c+1"), {Kind: "create", Path: "B-long-name.txt"}, W("B-long-name.txt", "cmid", "2c+1"),
		{Kind: "rename", Path: "B-long-name.txt", Path2: "C.TXT"}, {Kind: "remove", Path: "D/A.BIN"}, {Kind: "trunc", Path: "B-long-name.txt"}, {Kind: "mkdir", Path: "D/E"}, {Kind: "reopen"}}
	return &fatScen{Name: "highclusters", Cfg: fatCfg{Type: 32, Size: 40 << 20, Start: 1 << 20}, Letters: l, Depth: depth, Oracle: oracle, BadLow: 65600}
}

// fatAliasScenario (C08 only): the caller addresses long-named files and directories by their generated 8.3 alias
// (LONGFI~1.TXT), which VFAT accepts as a second name of the same entry. What the reference tree would say about such calls is
// a matter of interpretation (DESIGN 8.4) and is not judged; the on-disk structure must stay sound whatever names are used.
func fatAliasScenario(cfg fatCfg, oracle string, depth int) *fatScen {
	W := func(p, off, ln string) fsOp { return fsOp{Kind: "write", Path: p, Off: off, Len: ln} }
	l := []fsOp{W("longfilename1.txt", "0", "2c+1"), W("C.TXT", "0", "c+1"), {Kind: "create", Path: "longfilename2.txt"}, {Kind: "mkdir", Path: "longdirectoryname/sub"},
		{Kind: "rename", Path: "C.TXT", Path2: "LONGFI~1.TXT"}, {Kind: "rename", Path: "longfilename2.txt", Path2: "LONGFI~1.TXT"}, {Kind: "rename", Path: "LONGFI~1.TXT", Path2: "D.TXT"},
		{Kind: "rename", Path: "LONGFI~2.TXT", Path2: "longfilename1.txt"},
		{Kind: "remove", Path: "LONGFI~1.TXT"}, {Kind: "trunc", Path: "LONGFI~1.TXT"}, W("LONGFI~1.TXT", "eof", "c+1"), W("LONGDI~1/inner-long-name.bin", "0", "c+1"),
		{Kind: "remove", Path: "LONGDI~1/sub"}, {Kind: "remove", Path: "LONGDI~1"}, {Kind: "reopen"}}
	return &fatScen{Name: "aliases", Cfg: cfg, Letters: l, Depth: depth, Oracle: oracle}
}

// fatBigChainScenario: a chain of 400 clusters, so that the allocation table is used far into its second and later
// sectors (341 FAT12 / 256 FAT16 / 128 FAT32 entries per sector), then released by truncate, remove and rename-over while
// the same filesystem object stays open: what was written to the table's later sectors must be taken back on disk too.
func fatBigChainScenario(cfg fatCfg, oracle string, depth int) *fatScen {
	W := func(p, off, ln string) fsOp { return fsOp{Kind: "write", Path: p, Off: off, Len: ln} }
	l := []fsOp{W("BIG.BIN", "0", "400c"), W("S.BIN", "0", "c+1"), {Kind: "trunc", Path: "BIG.BIN"}, {Kind: "remove", Path: "BIG.BIN"}, {Kind: "rename", Path: "S.BIN", Path2: "BIG.BIN"},
		W("second-long-name.bin", "0", "130c"), {Kind: "remove", Path: "second-long-name.bin"}, {Kind: "reopen"}}
	return &fatScen{Name: "bigchain", Cfg: cfg, Letters: l, Depth: depth, Oracle: oracle}
}

// heldHandleScenario (structural oracles only): one handle stays open on a multi-cluster file while the same file is
// truncated, rewritten, renamed over or removed through other calls, and is then written through again. What a plain tree
// would say about a stale handle is a matter of interpretation and is not judged; the on-disk structure must stay sound.
func heldHandleScenario(cfg fatCfg, oracle string, depth int) *fatScen {
	W := func(p, off, ln string) fsOp { return fsOp{Kind: "write", Path: p, Off: off, Len: ln} }
	pre := []fsOp{W("F.BIN", "0", "6c"), W("other-long-name.bin", "0", "2c+1")}
	l := []fsOp{{Kind: "hold", Path: "F.BIN"}, {Kind: "heldwrite", Off: "0", Len: "7"}, {Kind: "heldwrite", Off: "eof", Len: "c+1"}, {Kind: "heldwrite", Off: "past", Len: "1"}, {Kind: "heldread", Off: "0", Len: "2c+1"},
		{Kind: "trunc", Path: "F.BIN"}, W("F.BIN", "0", "1"), W("F.BIN", "eof", "2c+1"), {Kind: "remove", Path: "F.BIN"}, {Kind: "rename", Path: "other-long-name.bin", Path2: "F.BIN"},
		W("new-while-held.bin", "0", "c+1"), {Kind: "release"}, {Kind: "reopen"}}
	return &fatScen{Name: "heldhandle", Cfg: cfg, Prefix: pre, Letters: l, Depth: depth, Oracle: oracle}
}

// fatNearMaxScenario: a volume with almost the largest cluster count its FAT type allows (FAT12: 4084 clusters), filled to the
// last cluster, so that chains run through the highest cluster numbers - just below the values reserved for bad clusters
// and end-of-chain marks (0xFF0.. on FAT12).
func fatNearMaxScenario(oracle string, depth int) *fatScen {
	W := func(p, off, ln string) fsOp { return fsOp{Kind: "write", Path: p, Off: off, Len: ln} }
	// 4084 data clusters: 2040 + 2040 + 3 + 1 fill the volume to the last cluster
	l := []fsOp{W("A.BIN", "0", "2040c"), W("B.BIN", "0", "2040c"), W("grow-long-name.bin", "0", "3c"), {Kind: "append", Path: "grow-long-name.bin", Len: "c"}, {Kind: "remove", Path: "A.BIN"}, {Kind: "reopen"}}
	return &fatScen{Name: "nearmax", Cfg: fatCfg{Type: 12, Size: 8384512, Start: 512}, Letters: l, Depth: depth + 1, Oracle: oracle}
}

// fatDirFullScenario: a sub-directory that is several clusters long on a volume without a single free cluster; calls that
// would need one more directory cluster (a create, a rename to a longer name, a mkdir) must be refused and leave the
// directory - all of its clusters - as it was.
func fatDirFullScenario(cfg fatCfg, oracle string, depth int) *fatScen {
	W := func(p, off, ln string) fsOp { return fsOp{Kind: "write", Path: p, Off: off, Len: ln} }
	pre := []fsOp{{Kind: "mkdir", Path: "D"}}
	for i := 0; i < 30; i++ {
		pre = append(pre, fsOp{Kind: "create", Path: fmt.Sprintf("D/entry-with-long-name-%02d.dat", i)})
	}
	pre = append(pre, fsOp{Kind: "fillgeo", Path: "z"})
	long := func(tag string) string { return "D/" + tag + "-" + strings.Repeat("n", 230) + ".dat" } // 19 long-name slots: more than a cluster of 512 bytes
	l := []fsOp{{Kind: "rename", Path: "D/entry-with-long-name-03.dat", Path2: long("renamed")}, {Kind: "create", Path: long("created")},
		{Kind: "mkdir", Path: "D/sub"}, {Kind: "rename", Path: "D/entry-with-long-name-05.dat", Path2: "D/E5.DAT"}, {Kind: "remove", Path: "D/entry-with-long-name-29.dat"}, W("D/entry-with-long-name-07.dat", "0", "c+1"),
		{Kind: "remove", Path: "z000"}, {Kind: "reopen"}}
	return &fatScen{Name: "dirfull", Cfg: cfg, Prefix: pre, Letters: l, Depth: depth, Oracle: oracle}
}

// fatFillScenario: fill / empty / refill on small volumes, explored to fixpoint.
func fatFillScenario(cfg fatCfg, oracle string, depth int) *fatScen {
	W := func(p, ln string) fsOp { return fsOp{Kind: "write", Path: p, Off: "0", Len: ln} }
	var l []fsOp
	for _, f := range []string{"F1", "F2", "F3"} {
		l = append(l, W(f, "p40"), W(f, "p70"))
	}
	for _, f := range []string{"F1", "F2", "F3"} {
		l = append(l, fsOp{Kind: "trunc", Path: f}, fsOp{Kind: "remove", Path: f})
	}
	l = append(l, fsOp{Kind: "rename", Path: "F1", Path2: "F2"}, fsOp{Kind: "mkdir", Path: "DIR"}, fsOp{Kind: "remove", Path: "DIR"}, fsOp{Kind: "reopen"})
	return &fatScen{Name: "enospc", Cfg: cfg, Letters: l, Depth: depth, Oracle: oracle, MaxStates: 400000, CanonFree: true}
}

// fatRootFullScenario: FAT12/16 fixed root directory exhaustion with 255-character names.
func fatRootFullScenario(cfg fatCfg, oracle string, depth int) *fatScen {
	long := func(i int) string { return fmt.Sprintf("%02d-%s.x", i, strings.Repeat("n", 240)) }
	var pre []fsOp
	// 112 root entries - 1 label; each 245-char name needs 19 LFN slots + 1 = 20 entries => 5 files = 100 slots
	for i := 0; i < 5; i++ {
		pre = append(pre, fsOp{Kind: "create", Path: long(i)})
	}
	l := []fsOp{{Kind: "create", Path: long(5)}, {Kind: "create", Path: long(6)}, {Kind: "create", Path: "S1.T"}, {Kind: "create", Path: "S2.T"}, {Kind: "mkdir", Path: "NEWDIR"}, {Kind: "create", Path: "short-lfn.txt"},
		{Kind: "remove", Path: long(0)}, {Kind: "remove", Path: long(5)}, {Kind: "remove", Path: "S1.T"}, {Kind: "rename", Path: "S1.T", Path2: long(7)}, {Kind: "write", Path: "S2.T", Off: "0", Len: "c+1"}, {Kind: "reopen"}}
	return &fatScen{Name: "rootfull", Cfg: cfg, Prefix: pre, Letters: l, Depth: depth, Oracle: oracle}
}

// ---- running a set of scenarios and collecting model-checking evidence ---------------------------------

type mcTotals struct {
	states, transitions int64
	maxDepth            int
	allFix              bool
	anyCapped           bool
	classes             map[string]int64
	perScen             []map[string]any
}

func runFatScens(r *ev.Run, scens []*fatScen, withMemo bool) *mcTotals {
	t := &mcTotals{allFix: true, classes: map[string]int64{}}
	for _, sc := range scens {
		if r.OutOfTime() {
			t.anyCapped = true
			break
		}
		var memo *acceptMemo
		if withMemo {
			memo = &acceptMemo{m: map[[32]byte]map[uint16]acceptRec{}}
		}
		es := sc.scenario(memo)
		st := explore.BFS(prefixedReporter{r, r.Prop, sc.Name}, es)
		t.states += st.States
		t.transitions += st.Transitions
		if st.MaxDepth > t.maxDepth {
			t.maxDepth = st.MaxDepth
		}
		if !st.Fixpoint {
			t.allFix = false
		}
		if st.Capped {
			t.anyCapped = true
		}
		for k, v := range st.Classes {
			t.classes[k] += v
		}
		t.perScen = append(t.perScen, map[string]any{"scenario": es.Name, "letters": len(es.Letters), "states": st.States, "transitions": st.Transitions, "depth_completed": st.MaxDepth, "fixpoint": st.Fixpoint, "frontier_per_depth": st.PerDepth})
		for _, s := range st.Samples {
			r.Sample(map[string]any{"scenario": es.Name, "history": s})
		}
	}
	return t
}

func (t *mcTotals) write(r *ev.Run) {
	r.Set("states", t.states)
	r.Set("transitions", t.transitions)
	r.Set("traces_validated_against_impl", t.transitions)
	r.Set("max_depth", int64(t.maxDepth))
	r.Set("fixpoint_all_scenarios", t.allFix)
	r.Set("scenarios", t.perScen)
	r.Set("distinct_outcomes", int64(len(t.classes)))
	r.Set("outcome_classes", t.classes)
	r.Set("exhaustive", !t.anyCapped)
}

// prefixedReporter namespaces signatures by property scenario class.
type prefixedReporter struct {
	r    *ev.Run
	prop string
	scen string
}

// a signature that starts with '@' names a class that does not depend on the scenario it was met in
func (p prefixedReporter) full(sig string) string {
	if strings.HasPrefix(sig, "@") {
		return strings.ToLower(p.prop) + "|" + sig[1:]
	}
	return strings.ToLower(p.prop) + "|" + p.scen + "|" + sig
}
func (p prefixedReporter) Report(sig, msg string, cas any) bool {
	return p.r.Report(p.full(sig), msg, cas)
}
func (p prefixedReporter) IsKnown(sig string) bool {
	return p.r.IsKnown(p.full(sig))
}
func (p prefixedReporter) OutOfTime() bool { return p.r.OutOfTime() }

// replayFatHistory re-executes a recorded history (plain unit test style) and returns what the oracle says.
func replayFatHistory(raw []byte, oracle string, all func() []*fatScen) string {
	var hc explore.HistCase
	if err := json.Unmarshal(raw, &hc); err != nil {
		return "bad case: " + err.Error()
	}
	for _, sc := range all() {
		es := sc.scenario(nil)
		if es.Name != hc.Scenario {
			continue
		}
		var res []string
		for i := 0; i <= len(hc.Indices); i++ {
			o := es.Run(hc.Indices[:i])
			for _, v := range o.Viols {
				res = append(res, fmt.Sprintf("after %d ops: %s: %s", i, v.Sig, v.Msg))
			}
		}
		if len(res) == 0 {
			return "holds"
		}
		return strings.Join(res, "\n")
	}
	return "unknown scenario " + hc.Scenario
}
