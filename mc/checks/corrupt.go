package checks

import (
	"bufio"
	"encoding/json"
	"fmt"
	"io"
	"os"
	"os/exec"
	"runtime"
	"runtime/debug"
	"runtime/metrics"
	"strconv"
	"strings"
	"sync"
	"syscall"
	"time"

	"verifmc/ev"
)

// Engine D: exhaustive single-site corruption, every case executed in a worker process under RLIMIT_AS.

type corruptResult struct {
	Sig        string `json:"sig,omitempty"`
	Msg        string `json:"msg,omitempty"`
	Nontrivial bool   `json:"nt,omitempty"` // the reader got past its first validation
	Outcome    string `json:"out,omitempty"`
}

type corruptTarget interface {
	Count(quick bool) int
	Run(i int, quick bool) corruptResult // must not panic out (use guard inside)
	Describe(i int, quick bool) any
}

var corruptTargets = map[string]func(quick bool) corruptTarget{}

// snapshotting targets can be saved by the parent and restored by workers (cheap worker start-up matters because
// every process death costs three start-ups).
type snapshotter interface {
	Snapshot() ([]byte, error)
}

var corruptRestore = map[string]func(b []byte, quick bool) (corruptTarget, error){}

const workerASLimit = 2 << 30

// noProgress: a single case takes milliseconds; a worker that reports nothing for this long is stuck. The case
// must get stuck again, twice, when re-run alone before it is reported.
const noProgress = 40 * time.Second

// currentVMSize is the size of the process's address space in bytes (from /proc/self/statm; 0 if unavailable).
func currentVMSize() uint64 {
	b, err := os.ReadFile("/proc/self/statm")
	if err != nil {
		return 0
	}
	var pages uint64
	fmt.Sscanf(string(b), "%d", &pages)
	return pages * uint64(os.Getpagesize())
}

func allocBytes() uint64 {
	s := []metrics.Sample{{Name: "/gc/heap/allocs:bytes"}}
	metrics.Read(s)
	return s[0].Value.Uint64()
}

func init() {
	workers["corrupt"] = func(args []string) {
		// args: target tier lo hi
		if len(args) < 4 {
			os.Exit(2)
		}
		mk, ok := corruptTargets[args[0]]
		if !ok {
			os.Exit(2)
		}
		quick := args[1] != "thorough"
		lo, _ := strconv.Atoi(args[2])
		hi, _ := strconv.Atoi(args[3])
		var t corruptTarget
		if snap := os.Getenv("VERIF_CORRUPT_SNAPSHOT"); snap != "" && corruptRestore[args[0]] != nil {
			if b, err := os.ReadFile(snap); err == nil {
				if rt, err := corruptRestore[args[0]](b, quick); err == nil {
					t = rt
				}
			}
		}
		if t == nil {
			t = mk(quick)
		}
		// the address-space limit is set AFTER the case list and the base images are in memory, and relative to what the
		// process occupies then: the thorough tiers hold more than a million cases, and what the limit is there for is the
		// reader under test (an allocation of more than workerASLimit beyond this point kills the worker at once)
		runtime.GC()
		debug.FreeOSMemory()
		lim := syscall.Rlimit{Cur: workerASLimit + currentVMSize(), Max: workerASLimit + currentVMSize()}
		_ = syscall.Setrlimit(syscall.RLIMIT_AS, &lim)
		w := bufio.NewWriter(os.Stdout)
		fmt.Fprintf(w, "R\n") // ready: case list and base images are loaded; from here on silence means the case in flight hangs
		w.Flush()
		for i := lo; i < hi; i++ {
			fmt.Fprintf(w, "S %d\n", i)
			w.Flush()
			var res corruptResult
			if pm := guard(func() { res = t.Run(i, quick) }); pm != "" {
				res = corruptResult{Sig: "panic|" + pm, Msg: pm, Outcome: "panic"}
			}
			res.Sig = normSig(res.Sig)
			b, _ := json.Marshal(res)
			fmt.Fprintf(w, "D %d %s\n", i, b)
			if i%256 == 255 {
				w.Flush()
			}
		}
		w.Flush()
	}
}

type corruptStats struct {
	hangs      int
	mu         sync.Mutex
	done       int64
	nontrivial int64
	outcomes   map[string]int
	deaths     int
}

// runCorrupt drives target over all its cases with worker processes. prop-specific signature prefix in sigPrefix.
func runCorrupt(r *ev.Run, target string, sigPrefix string) (*corruptStats, int) {
	mk := corruptTargets[target]
	quick := r.Quick()
	st := &corruptStats{outcomes: map[string]int{}}
	var t corruptTarget
	// building the base images and walking the CLEAN ones (to learn which bytes the reader consumes) runs library code
	// too: a panic there is a finding about the unchanged image, not an infrastructure failure
	if pm := guard(func() { t = mk(quick) }); pm != "" {
		r.Report(sigPrefix+"|clean-image|"+pm, "building or reading a clean, uncorrupted base image panicked: "+pm, map[string]any{"target": target, "tier": r.Tier})
		r.Capped = true
		return st, 0
	}
	n := t.Count(quick)
	vmc := os.Getenv("VERIF_VMC")
	if vmc == "" {
		vmc, _ = os.Executable()
	}
	snapPath := ""
	if sn, ok := t.(snapshotter); ok {
		if b, err := sn.Snapshot(); err == nil {
			dir := os.Getenv("VERIF_SCRATCH")
			if dir == "" {
				dir = os.TempDir()
			}
			snapPath = dir + "/corrupt-" + target + ".snap"
			if os.WriteFile(snapPath, b, 0o600) != nil {
				snapPath = ""
			}
		}
	}
	defer func() {
		if snapPath != "" {
			os.Remove(snapPath)
		}
	}()
	nw := runtime.NumCPU()
	chunk := (n + nw*8 - 1) / (nw * 8)
	if chunk < 1 {
		chunk = 1
	}
	type span struct{ lo, hi int }
	var spans []span
	for lo := 0; lo < n; lo += chunk {
		hi := lo + chunk
		if hi > n {
			hi = n
		}
		spans = append(spans, span{lo, hi})
	}
	var mu sync.Mutex
	next := 0
	var wg sync.WaitGroup
	tier := "quick"
	if !quick {
		tier = "thorough"
	}
	// runSpan runs [lo,hi) in one worker; returns (lastStarted, finishedAll, stderrTail, waitErr)
	runSpan := func(lo, hi int, timeout time.Duration) (inflight int, completed int, diag string) {
		cmd := exec.Command(vmc, "worker", "corrupt", target, tier, strconv.Itoa(lo), strconv.Itoa(hi))
		cmd.Env = append(os.Environ(), "GOMAXPROCS=2", "GOGC=50", "VERIF_CORRUPT_SNAPSHOT="+snapPath)
		out, _ := cmd.StdoutPipe()
		var errb strings.Builder
		cmd.Stderr = &limitedWriter{w: &errb, n: 4096}
		if err := cmd.Start(); err != nil {
			return lo, lo, "INFRA cannot start worker: " + err.Error()
		}
		inflight = -1
		completed = lo
		progress := make(chan struct{}, 1)
		doneCh := make(chan struct{})
		go func() {
			sc := bufio.NewScanner(out)
			sc.Buffer(make([]byte, 1<<20), 1<<20)
			for sc.Scan() {
				ln := sc.Text()
				if strings.HasPrefix(ln, "S ") {
					v, _ := strconv.Atoi(ln[2:])
					mu.Lock()
					inflight = v
					mu.Unlock()
				} else if strings.HasPrefix(ln, "D ") {
					rest := ln[2:]
					sp := strings.IndexByte(rest, ' ')
					idx, _ := strconv.Atoi(rest[:sp])
					var res corruptResult
					_ = json.Unmarshal([]byte(rest[sp+1:]), &res)
					mu.Lock()
					completed = idx + 1
					inflight = -1
					mu.Unlock()
					st.mu.Lock()
					st.done++
					if res.Nontrivial {
						st.nontrivial++
					}
					st.outcomes[res.Outcome]++
					st.mu.Unlock()
					if res.Sig != "" {
						r.Report(sigPrefix+"|"+res.Sig, res.Msg, map[string]any{"target": target, "tier": tier, "index": idx, "case": t.Describe(idx, quick)})
					}
					if idx%4096 == 0 {
						r.Sample(t.Describe(idx, quick))
					}
				}
				select {
				case progress <- struct{}{}:
				default:
				}
			}
			close(doneCh)
		}()
		// until the worker has said that it is ready (it first loads the case list - more than half a million cases in the
		// thorough tiers - possibly while the machine is busy) a generous start-up allowance applies instead of the per-case
		// no-progress limit
		startup := 15 * time.Minute
		if startup < timeout {
			startup = timeout
		}
		timer := time.NewTimer(startup)
		for {
			select {
			case <-progress:
				if !timer.Stop() {
					select {
					case <-timer.C:
					default:
					}
				}
				timer.Reset(timeout)
				continue
			case <-doneCh:
				_ = cmd.Wait()
				mu.Lock()
				defer mu.Unlock()
				if completed >= hi {
					return -1, completed, ""
				}
				d := errb.String()
				if i := strings.Index(d, "\n"); i > 0 {
					d = d[:i]
				}
				return inflight, completed, "worker exited: " + cmd.ProcessState.String() + " " + firstWords(d)
			case <-timer.C:
				_ = cmd.Process.Kill()
				<-doneCh
				_ = cmd.Wait()
				mu.Lock()
				defer mu.Unlock()
				return inflight, completed, fmt.Sprintf("no progress for %v (killed)", timeout)
			}
		}
	}
	for k := 0; k < nw; k++ {
		wg.Add(1)
		go func() {
			defer wg.Done()
			for {
				mu.Lock()
				st.mu.Lock()
				tooMany := st.deaths > 1500 || st.hangs > 12
				st.mu.Unlock()
				if next >= len(spans) || r.OutOfTime() || tooMany {
					if tooMany {
						r.Set("stopped_early", "more than 1500 worker deaths or 12 hangs: exploration stopped, what was covered is reported")
						r.Capped = true
					}
					mu.Unlock()
					return
				}
				sp := spans[next]
				next++
				mu.Unlock()
				lo := sp.lo
				for lo < sp.hi && !r.OutOfTime() {
					inflight, completed, diag := runSpan(lo, sp.hi, noProgress)
					if diag == "" {
						break
					}
					if strings.HasPrefix(diag, "INFRA") {
						r.Report(sigPrefix+"|infra", diag, nil)
						return
					}
					bad := inflight
					if bad < 0 {
						bad = completed
					}
					// reproduce: the death must happen again twice on that single case
					rep := 0
					for k := 0; k < 2; k++ {
						if _, _, d2 := runSpan(bad, bad+1, noProgress); d2 != "" {
							rep++
						}
					}
					st.mu.Lock()
					st.deaths++
					st.mu.Unlock()
					if rep == 2 {
						cls := "process-death"
						if strings.Contains(diag, "no progress") {
							cls = "hang"
							st.mu.Lock()
							st.hangs++
							st.mu.Unlock()
						}
						if nm, ok := t.(interface{ ImageOf(i int) string }); ok {
							cls = nm.ImageOf(bad) + "|" + cls
						}
						r.Report(sigPrefix+"|"+cls+"|"+deathClass(diag), "reader killed the process / did not return: "+diag, map[string]any{"target": target, "tier": tier, "index": bad, "case": t.Describe(bad, quick)})
						st.mu.Lock()
						st.done++
						st.outcomes[cls]++
						st.mu.Unlock()
					} else {
						r.Set("unreproduced_worker_deaths", r.Get("unreproduced_worker_deaths")+1)
					}
					lo = bad + 1
				}
			}
		}()
	}
	wg.Wait()
	return st, n
}

func deathClass(d string) string {
	switch {
	case strings.Contains(d, "out of memory"), strings.Contains(d, "cannot allocate"):
		return "out-of-memory"
	case strings.Contains(d, "stack"):
		return "stack-overflow"
	case strings.Contains(d, "no progress"):
		return "no-progress"
	}
	return firstWords(d)
}

type limitedWriter struct {
	w io.Writer
	n int
}

func (l *limitedWriter) Write(p []byte) (int, error) {
	if l.n > 0 {
		q := p
		if len(q) > l.n {
			q = q[:l.n]
		}
		l.n -= len(q)
		_, _ = l.w.Write(q)
	}
	return len(p), nil
}

// replay of a corruption case: run it in a worker process (so that a death is observed, not suffered)
func replayCorrupt(raw []byte) string {
	var c struct {
		Target string `json:"target"`
		Tier   string `json:"tier"`
		Index  int    `json:"index"`
	}
	if err := json.Unmarshal(raw, &c); err != nil {
		return "bad case"
	}
	vmc := os.Getenv("VERIF_VMC")
	if vmc == "" {
		vmc, _ = os.Executable()
	}
	cmd := exec.Command(vmc, "worker", "corrupt", c.Target, c.Tier, strconv.Itoa(c.Index), strconv.Itoa(c.Index+1))
	out, err := cmd.CombinedOutput()
	s := string(out)
	if err != nil {
		if len(s) > 600 {
			s = s[:600]
		}
		return "worker died: " + err.Error() + " " + s
	}
	for _, ln := range strings.Split(s, "\n") {
		if strings.HasPrefix(ln, "D ") {
			var res corruptResult
			_ = json.Unmarshal([]byte(ln[strings.IndexByte(ln[2:], ' ')+3:]), &res)
			if res.Sig == "" {
				return "holds"
			}
			return res.Sig + ": " + res.Msg
		}
	}
	return "no result line"
}

// normSig: see ev.NormSig (kept for the worker side, which reports raw signatures to the parent).
func normSig(sig string) string { return ev.NormSig(sig) }
