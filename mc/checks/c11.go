package checks

import (
	"bytes"
	"crypto/sha256"
	"encoding/binary"
	"encoding/json"
	"errors"
	"fmt"
	"github.com/diskfs/go-diskfs/filesystem/ext4"
	"github.com/diskfs/go-diskfs/filesystem/fat32"
	"github.com/diskfs/go-diskfs/verifhook/vtime"
	"io"
	"os"
	"path/filepath"
	"strings"
	"sync"
	"time"
	"verifmc/oracle/fatck"

	diskfs "github.com/diskfs/go-diskfs"
	"github.com/diskfs/go-diskfs/backend"
	"github.com/diskfs/go-diskfs/backend/file"
	"github.com/diskfs/go-diskfs/disk"
	"github.com/diskfs/go-diskfs/filesystem"
	"github.com/diskfs/go-diskfs/filesystem/iso9660"
	"github.com/diskfs/go-diskfs/filesystem/squashfs"
	"github.com/diskfs/go-diskfs/partition/gpt"
	"github.com/diskfs/go-diskfs/partition/mbr"

	"verifmc/ev"
	"verifmc/explore"
	"verifmc/memdev"
)

func init() {
	register("C11", "model_checking", C11)
	Replayers["C11"] = func(raw []byte) string {
		var hc explore.HistCase
		if err := json.Unmarshal(raw, &hc); err != nil {
			return "bad case"
		}
		for _, t := range c11Targets(false) {
			sc := t.scenario(9)
			if sc.Name != hc.Scenario {
				continue
			}
			var res []string
			for i := 1; i <= len(hc.Indices); i++ {
				for _, v := range sc.Run(hc.Indices[:i]).Viols {
					res = append(res, v.Sig+": "+v.Msg)
				}
			}
			if len(res) == 0 {
				return "holds"
			}
			return strings.Join(res, "\n")
		}
		return "unknown scenario"
	}
}

// ---- base disk images --------------------------------------------------------------------------------

type roImage struct {
	Kind  string // fat12 fat16 fat32 ext4 iso squashfs
	Table string // gpt mbr none
	Dev   *memdev.Dev
	LSS   int
	Part  int // partition number holding the filesystem (0 = whole disk)
	File  string
	Final bool // finalized read-only filesystem type (iso, squashfs)
}

var roImages struct {
	sync.Mutex
	m map[string]*roImage
}

func c11Tree() *treeSpec {
	return &treeSpec{Dirs: []string{"DIR"}, Files: map[string][]byte{"FILE.TXT": patternBytes(3, 900), "DIR/INNER.BIN": patternBytes(4, 5000)}}
}

// fsBytes builds a filesystem of the given kind as a standalone image and returns its bytes.
// foreignEmptyFile rewrites a FAT16/FAT32 image the way other implementations (Linux vfat, Windows, mtools) store an empty
// file: the directory entry of EMPTY.TXT gets first cluster 0 and the cluster the library had given it is marked free in
// both copies of the allocation table. The result is checked with the independent FAT reader.
func foreignEmptyFile(b []byte, fatType int) error {
	at := bytes.Index(b, []byte("EMPTY   TXT"))
	if at < 0 || at%32 != 0 {
		return errors.New("directory entry of EMPTY.TXT not found")
	}
	e := b[at : at+32]
	cl := uint32(binary.LittleEndian.Uint16(e[26:28])) | uint32(binary.LittleEndian.Uint16(e[20:22]))<<16
	if cl < 2 || binary.LittleEndian.Uint32(e[28:32]) != 0 {
		return fmt.Errorf("EMPTY.TXT: first cluster %d, size %d", cl, binary.LittleEndian.Uint32(e[28:32]))
	}
	copy(e[26:28], []byte{0, 0})
	copy(e[20:22], []byte{0, 0})
	bps := int(binary.LittleEndian.Uint16(b[11:13]))
	reserved := int(binary.LittleEndian.Uint16(b[14:16]))
	nfat := int(b[16])
	fatSectors := int(binary.LittleEndian.Uint16(b[22:24]))
	if fatSectors == 0 {
		fatSectors = int(binary.LittleEndian.Uint32(b[36:40]))
	}
	for i := 0; i < nfat; i++ {
		base := (reserved + i*fatSectors) * bps
		if fatType == 16 {
			copy(b[base+int(cl)*2:], []byte{0, 0})
		} else {
			copy(b[base+int(cl)*4:], []byte{0, 0, 0, 0})
		}
	}
	if fatType == 32 {
		// FSInfo free count (sector 1, offset 488): one more free cluster, if the count is maintained
		fi := bps
		if binary.LittleEndian.Uint32(b[fi:fi+4]) == 0x41615252 {
			if n := binary.LittleEndian.Uint32(b[fi+488 : fi+492]); n != 0xFFFFFFFF {
				binary.LittleEndian.PutUint32(b[fi+488:], n+1)
				if bk := int(binary.LittleEndian.Uint16(b[50:52])); bk > 0 && (bk+1)*bps+492 <= len(b) {
					bf := (bk + 1) * bps
					if binary.LittleEndian.Uint32(b[bf:bf+4]) == 0x41615252 {
						binary.LittleEndian.PutUint32(b[bf+488:], n+1)
					}
				}
			}
		}
	}
	return nil
}

func fsBytes(kind string, tree *treeSpec) ([]byte, error) {
	if kind == "fat32y" {
		// a FAT32 image whose FSInfo sector carries a free-cluster hint that cannot be right (more free clusters than the
		// volume has): the hint is advisory, other tools leave such values behind; reading such a volume must not "repair" it
		b, err := fsBytes("fat32", tree)
		if err != nil {
			return nil, err
		}
		bps := int(binary.LittleEndian.Uint16(b[11:13]))
		for _, sec := range []int{1, int(binary.LittleEndian.Uint16(b[50:52])) + 1} {
			if o := sec * bps; sec > 0 && o+492 <= len(b) && binary.LittleEndian.Uint32(b[o:o+4]) == 0x41615252 {
				binary.LittleEndian.PutUint32(b[o+488:], 0x00FFFFF0)
			}
		}
		return b, nil
	}
	if kind == "fat16x" || kind == "fat32x" {
		t2 := &treeSpec{Dirs: tree.Dirs, Files: map[string][]byte{"EMPTY.TXT": nil}}
		for k, v := range tree.Files {
			t2.Files[k] = v
		}
		b, err := fsBytes(strings.TrimSuffix(kind, "x"), t2)
		if err != nil {
			return nil, err
		}
		ft := 16
		if kind == "fat32x" {
			ft = 32
		}
		if err := foreignEmptyFile(b, ft); err != nil {
			return nil, err
		}
		d := memdev.New(int64(len(b)))
		d.Poke(b, 0)
		if res := fatck.Check(d, 0, int64(len(b)), ft); len(res.Problems) > 0 {
			return nil, fmt.Errorf("crafted image is not sound for the independent FAT reader: %s", strings.Join(res.Problems, "; "))
		}
		return b, nil
	}
	switch kind {
	case "fat12", "fat16", "fat32":
		cfg := fatCfg{Type: 12, Size: 64 << 10}
		if kind == "fat16" {
			cfg = fatCfg{Type: 16, Size: 4400 << 10}
		} else if kind == "fat32" {
			cfg = fatCfg{Type: 32, Size: 64 << 10}
		}
		s, err := newFatSys(cfg, "none")
		if err != nil {
			return nil, err
		}
		for _, d := range tree.Dirs {
			if err := s.fs.Mkdir(d); err != nil {
				return nil, err
			}
		}
		for _, p := range tree.sortedFiles() {
			f, err := s.fs.OpenFile(p, os.O_CREATE|os.O_RDWR)
			if err != nil {
				return nil, err
			}
			if _, err := f.Write(tree.Files[p]); err != nil && len(tree.Files[p]) > 0 {
				return nil, err
			}
			f.Close()
		}
		return s.dev.Bytes(0, cfg.Size), nil
	case "ext4":
		img, _, err := buildExt4(tree, 1<<20, 0, ext4SmallParams(2, true))
		if err != nil {
			return nil, err
		}
		return img.Dev.Bytes(0, img.Size), nil
	case "iso":
		img, err := buildISO(tree, iso9660.FinalizeOptions{RockRidge: true}, 2048, 0)
		if err != nil {
			return nil, err
		}
		n := highestWrite(img.Dev)
		n = (n + 4095) / 4096 * 4096
		return img.Dev.Bytes(0, n), nil
	default:
		img, err := buildSquash(tree, squashfs.FinalizeOptions{}, 4096, 0)
		if err != nil {
			return nil, err
		}
		n := highestWrite(img.Dev)
		n = (n + 4095) / 4096 * 4096
		return img.Dev.Bytes(0, n), nil
	}
}

func getROImage(kind, table string) (*roImage, error) {
	roImages.Lock()
	defer roImages.Unlock()
	if roImages.m == nil {
		roImages.m = map[string]*roImage{}
	}
	k := kind + "/" + table
	if im, ok := roImages.m[k]; ok {
		return im, nil
	}
	b, err := fsBytes(kind, c11Tree())
	if err != nil {
		return nil, err
	}
	lss := 512
	if kind == "squashfs" {
		lss = 4096
	}
	im := &roImage{Kind: kind, Table: table, LSS: lss, Final: kind == "iso" || kind == "squashfs"}
	if table == "none" {
		im.Dev = memdev.New(int64(len(b)))
		im.Dev.Poke(b, 0)
	} else {
		start := int64(1 << 20)
		psize := (int64(len(b)) + int64(lss) - 1) / int64(lss) * int64(lss)
		total := start + psize + 1<<20
		im.Dev = memdev.New(total)
		im.Dev.Poke(b, start)
		im.Part = 1
		if table == "gpt" || table == "gptbad" {
			t := &gpt.Table{LogicalSectorSize: lss, PhysicalSectorSize: lss, ProtectiveMBR: true, GUID: fixedDiskGUID,
				Partitions: []*gpt.Partition{{Index: 1, Start: uint64(start / int64(lss)), End: uint64((start+psize)/int64(lss)) - 1, Type: gpt.LinuxFilesystem, Name: "data", GUID: partGUID(1)}}}
			if err := t.Write(im.Dev, total); err != nil {
				return nil, err
			}
			if table == "gptbad" {
				// the primary entry array is damaged (its CRC no longer matches): readers fall back to the backup copy.
				// Reading such a disk must still not write to it.
				im.Dev.Poke([]byte{0xFF}, int64(2*lss)+40)
			}
		} else {
			t := &mbr.Table{LogicalSectorSize: lss, PhysicalSectorSize: lss, Partitions: []*mbr.Partition{{Type: mbr.Linux, Start: uint32(start / int64(lss)), Size: uint32(psize / int64(lss))}}}
			if err := t.Write(im.Dev, total); err != nil {
				return nil, err
			}
		}
	}
	dir := os.Getenv("VERIF_SCRATCH")
	if dir == "" {
		dir = os.TempDir()
	}
	im.File = filepath.Join(dir, fmt.Sprintf("c11-%s-%s.img", kind, table))
	if err := os.WriteFile(im.File, im.Dev.Bytes(0, im.Dev.Size()), 0o644); err != nil {
		return nil, err
	}
	roImages.m[k] = im
	return im, nil
}

// failingBackend: a backend whose Writable() always fails although the file underneath could be written.
type failingBackend struct{ backend.Storage }

func (f failingBackend) Writable() (backend.WritableFile, error) {
	return nil, errors.New("backend refuses to be written")
}

// failingWriterBackend: as failingBackend, but the backend's own type can also be written directly (the natural shape of a
// hand-written backend that embeds an *os.File): the refusal lives in Writable() alone.
type failingWriterBackend struct {
	backend.Storage
	dev *memdev.Dev
}

func (f failingWriterBackend) Writable() (backend.WritableFile, error) {
	return nil, errors.New("backend refuses to be written")
}
func (f failingWriterBackend) WriteAt(p []byte, off int64) (int, error) { return f.dev.WriteAt(p, off) }

// ---- the target: (image, way of being read-only) ---------------------------------------------------------

type c11Target struct {
	Kind, Table string
	Mode        string // ro-memdev | ro-open | ro-frompath | ro-failing | rw-memdev (reading calls only + finalized fs)
}

type roLetter struct {
	Name     string
	Mutating bool
	Do       func(c *roCtx) error
}

type roCtx struct {
	d   *disk.Disk
	fs  filesystem.FileSystem
	im  *roImage
	rdh filesystem.File
}

func roLetters(final, writableDevice bool) []roLetter {
	openW := func(flag int) func(c *roCtx) error {
		return func(c *roCtx) error {
			f, err := c.fs.OpenFile("FILE.TXT", flag)
			if err != nil {
				return err
			}
			defer f.Close()
			if flag&(os.O_CREATE|os.O_TRUNC|os.O_APPEND) != 0 && flag&os.O_RDWR == 0 && flag&os.O_WRONLY == 0 {
				return nil // accepted: judged by the caller (it is a mutating open)
			}
			_, err = f.Write([]byte("overwrite"))
			return err
		}
	}
	ls := []roLetter{
		// reading entry points
		{"GetPartitionTable", false, func(c *roCtx) error { _, err := c.d.GetPartitionTable(); return nilIfNoTable(err, c) }},
		{"GetFilesystem", false, func(c *roCtx) error { _, err := c.d.GetFilesystem(c.im.Part); return err }},
		{"ReadDir", false, func(c *roCtx) error { _, err := c.fs.ReadDir("."); return err }},
		{"ReadDir(DIR)", false, func(c *roCtx) error { _, err := c.fs.ReadDir("DIR"); return err }},
		{"Stat", false, func(c *roCtx) error { _, err := c.fs.Stat("FILE.TXT"); return err }},
		{"ReadFile", false, func(c *roCtx) error {
			b, err := c.fs.ReadFile("DIR/INNER.BIN")
			if err == nil && !bytes.Equal(b, c11Tree().Files["DIR/INNER.BIN"]) {
				return errors.New("wrong contents")
			}
			return err
		}},
		{"Open+Read", false, func(c *roCtx) error {
			f, err := c.fs.Open("FILE.TXT")
			if err != nil {
				return err
			}
			defer f.Close()
			_, err = io.ReadAll(f)
			return err
		}},
		{"Label", false, func(c *roCtx) error { _ = c.fs.Label(); return nil }},
		{"Open+Read(EMPTY.TXT)", false, func(c *roCtx) error {
			// an empty file as other implementations store it (no cluster at all); whether the library can read it is not the
			// point here (an error is fine) - reading it must not write
			if !strings.HasSuffix(c.im.Kind, "x") {
				return errors.New("n/a")
			}
			if f, err := c.fs.OpenFile("EMPTY.TXT", os.O_RDONLY); err == nil {
				_, _ = io.ReadAll(f)
				f.Close()
			}
			_, _ = c.fs.ReadFile("EMPTY.TXT")
			_, _ = c.fs.Stat("EMPTY.TXT")
			return nil
		}},
		{"ReadPartitionContents", false, func(c *roCtx) error {
			if c.im.Part == 0 {
				return nil
			}
			_, err := c.d.ReadPartitionContents(c.im.Part, io.Discard)
			return err
		}},
		// mutating entry points
		{"Mkdir", true, func(c *roCtx) error { return c.fs.Mkdir("NEWDIR") }},
		{"Mkdir(existing)", true, func(c *roCtx) error { return c.fs.Mkdir("DIR/SUB") }},
		{"OpenFile(O_RDWR)+Write", true, openW(os.O_RDWR)},
		{"OpenFile(O_WRONLY)+Write", true, openW(os.O_WRONLY)},
		{"OpenFile(O_CREATE|O_RDWR new)", true, func(c *roCtx) error {
			f, err := c.fs.OpenFile("CREATED.TXT", os.O_CREATE|os.O_RDWR)
			if err == nil {
				f.Close()
			}
			return err
		}},
		{"OpenFile(O_APPEND|O_RDWR)+Write", true, openW(os.O_APPEND | os.O_RDWR)},
		{"OpenFile(O_TRUNC|O_RDWR)", true, func(c *roCtx) error {
			f, err := c.fs.OpenFile("FILE.TXT", os.O_TRUNC|os.O_RDWR)
			if err == nil {
				f.Close()
			}
			return err
		}},
		{"OpenFile(O_TRUNC)", true, func(c *roCtx) error {
			f, err := c.fs.OpenFile("FILE.TXT", os.O_TRUNC)
			if err == nil {
				f.Close()
			}
			return err
		}},
		{"Write(on read-only handle)", true, func(c *roCtx) error {
			f, err := c.fs.OpenFile("FILE.TXT", os.O_RDONLY)
			if err != nil {
				return nil // cannot even open: nothing to judge
			}
			defer f.Close()
			_, err = f.Write([]byte("x"))
			return err
		}},
		{"Rename", true, func(c *roCtx) error { return c.fs.Rename("FILE.TXT", "RENAMED.TXT") }},
		{"Remove", true, func(c *roCtx) error { return c.fs.Remove("FILE.TXT") }},
		{"SetLabel", true, func(c *roCtx) error { return c.fs.SetLabel("NEWLABEL") }},
		{"Chmod", true, func(c *roCtx) error { return c.fs.Chmod("FILE.TXT", 0o600) }},
		{"Chown", true, func(c *roCtx) error { return c.fs.Chown("FILE.TXT", 1, 2) }},
		{"Chtimes", true, func(c *roCtx) error { t := time.Unix(1e9, 0); return c.fs.Chtimes("FILE.TXT", t, t, t) }},
		{"Symlink", true, func(c *roCtx) error { return c.fs.Symlink("FILE.TXT", "LINK") }},
		{"SetHidden(handle)", true, func(c *roCtx) error {
			f, err := c.fs.OpenFile("FILE.TXT", os.O_RDONLY)
			if err != nil {
				return errors.New("n/a")
			}
			defer f.Close()
			if h, ok := f.(interface{ SetHidden(bool) error }); ok {
				return h.SetHidden(true)
			}
			return errors.New("n/a")
		}},
	}
	if final {
		ls = append(ls, roLetter{"Finalize", true, func(c *roCtx) error {
			switch f := c.fs.(type) {
			case *iso9660.FileSystem:
				return f.Finalize(iso9660.FinalizeOptions{RockRidge: true})
			case *squashfs.FileSystem:
				return f.Finalize(squashfs.FinalizeOptions{})
			}
			return errors.New("n/a")
		}})
	}
	if !(final && writableDevice) {
		// disk-level mutators are only "must refuse" on a read-only disk
		ls = append(ls,
			roLetter{"Partition", true, func(c *roCtx) error {
				t := &gpt.Table{LogicalSectorSize: c.im.LSS, PhysicalSectorSize: c.im.LSS, ProtectiveMBR: true, GUID: fixedDiskGUID}
				return c.d.Partition(t)
			}},
			roLetter{"Partition(mbr)", true, func(c *roCtx) error {
				return c.d.Partition(&mbr.Table{LogicalSectorSize: c.im.LSS, PhysicalSectorSize: c.im.LSS})
			}},
			roLetter{"WritePartitionContents", true, func(c *roCtx) error {
				if c.im.Part == 0 {
					return errors.New("n/a")
				}
				_, err := c.d.WritePartitionContents(c.im.Part, bytes.NewReader(make([]byte, 4096)))
				return err
			}},
			roLetter{"ext4.Create(beyond the end of the image)", true, func(c *roCtx) error {
				_, err := ext4.Create(c.d.Backend, c.d.Size+1<<20, 0, 512, ext4SmallParams(2, true))
				return err
			}},
			roLetter{"fat32.Create(beyond the end of the image)", true, func(c *roCtx) error {
				_, err := fat32.Create(c.d.Backend, c.d.Size+1<<20, 0, 512, "X", false)
				return err
			}},
			roLetter{"CreateFilesystem", true, func(c *roCtx) error {
				_, err := c.d.CreateFilesystem(disk.FilesystemSpec{Partition: c.im.Part, FSType: filesystem.TypeFat32, VolumeLabel: "X"})
				return err
			}},
		)
	}
	return ls
}

func nilIfNoTable(err error, c *roCtx) error {
	if c.im.Table == "none" {
		return nil
	}
	return err
}

func (t c11Target) scenario(depth int) explore.Scenario {
	name := fmt.Sprintf("readonly/%s/%s/%s", t.Kind, t.Table, t.Mode)
	// the images are built "in 2001" and read "in 2024": whatever a reader keeps up to date by the wall clock (an access
	// date, a mount time) would then differ from what is stored
	vtime.Set(func() time.Time { return time.Date(2001, 2, 3, 4, 5, 6, 0, time.UTC) })
	os.Setenv("SOURCE_DATE_EPOCH", "981173106")
	im, ierr := getROImage(t.Kind, t.Table)
	vtime.Set(func() time.Time { return time.Date(2024, 5, 6, 7, 8, 10, 0, time.UTC) })
	os.Unsetenv("SOURCE_DATE_EPOCH")
	writable := t.Mode == "rw-memdev"
	var letters []roLetter
	if ierr == nil {
		letters = roLetters(im.Final, writable)
		if writable && !im.Final {
			// a writable, modifiable filesystem: only the reading entry points are constrained
			var rl []roLetter
			for _, l := range letters {
				if !l.Mutating {
					rl = append(rl, l)
				}
			}
			letters = rl
		}
	}
	names := make([]string, len(letters))
	for i, l := range letters {
		names[i] = l.Name
	}
	run := func(hist []uint16) explore.Outcome {
		var out explore.Outcome
		h := sha256.Sum256([]byte(fmt.Sprint(name, hist)))
		out.Key = h
		if ierr != nil {
			out.Viols = append(out.Viols, explore.Viol{Sig: "infra|image|" + t.Kind, Msg: ierr.Error()})
			out.Prune = true
			return out
		}
		add := func(sig, msg string) {
			out.Viols = append(out.Viols, explore.Viol{Sig: t.Kind + "|" + sig, Msg: fmt.Sprintf("%s after %v: %s", name, histNames(names, hist), msg)})
		}
		var dev *memdev.Dev
		var b backend.Storage
		var fileHash [32]byte
		switch t.Mode {
		case "ro-memdev", "rw-memdev":
			dev = im.Dev.Clone()
			dev.LogEvents = true
			b = file.New(dev, t.Mode == "ro-memdev")
		case "ro-failing":
			dev = im.Dev.Clone()
			dev.LogEvents = true
			b = failingBackend{file.New(dev, false)}
		case "ro-failing-writer":
			dev = im.Dev.Clone()
			dev.LogEvents = true
			b = failingWriterBackend{file.New(dev, false), dev}
		case "ro-osfile":
			// the image file is open read-WRITE at the OS level; only the library's wrapper says read-only
			of, err := os.OpenFile(im.File, os.O_RDWR, 0)
			if err != nil {
				add("infra|open", err.Error())
				return out
			}
			defer of.Close()
			b = file.New(of, true)
		case "ro-frompath":
			fb, err := file.OpenFromPath(im.File, true)
			if err != nil {
				add("infra|open", err.Error())
				return out
			}
			b = fb
		}
		var d *disk.Disk
		var err error
		ss := diskfs.SectorSize512
		if im.LSS == 4096 {
			ss = diskfs.SectorSize4k
		}
		if t.Mode == "ro-open" || t.Mode == "ro-frompath" || t.Mode == "ro-osfile" {
			raw, _ := os.ReadFile(im.File)
			fileHash = sha256.Sum256(raw)
		}
		if pm := guard(func() {
			if t.Mode == "ro-open" {
				d, err = diskfs.Open(im.File, diskfs.WithOpenMode(diskfs.ReadOnly), diskfs.WithSectorSize(ss))
			} else {
				d, err = diskfs.OpenBackend(b, diskfs.WithSectorSize(ss))
			}
		}); pm != "" {
			add("open|"+pm, pm)
			out.Prune = true
			return out
		}
		if err != nil {
			add("infra|open-disk", err.Error())
			out.Prune = true
			return out
		}
		defer func() {
			if t.Mode == "ro-open" || t.Mode == "ro-frompath" {
				_ = d.Backend.Close()
			}
		}()
		c := &roCtx{d: d, im: im}
		if pm := guard(func() { c.fs, err = d.GetFilesystem(im.Part) }); pm != "" || err != nil {
			add("infra|get-filesystem", fmt.Sprint(pm, err))
			out.Prune = true
			return out
		}
		startWrites := int64(0)
		if dev != nil {
			startWrites = dev.Writes
		}
		for i, li := range hist {
			l := letters[li]
			last := i == len(hist)-1
			var lerr error
			pm := guard(func() { lerr = l.Do(c) })
			if !last {
				continue
			}
			if pm != "" {
				add(l.Name+"|"+pm, pm)
				out.Class = "panic"
				continue
			}
			na := lerr != nil && lerr.Error() == "n/a"
			switch {
			case na:
				out.Class = "n/a"
			case l.Mutating && lerr == nil:
				out.Class = "accepted:" + l.Name
				add("mutating-call-accepted|"+l.Name, l.Name+" returned no error on a read-only "+map[bool]string{true: "finalized filesystem", false: "disk"}[writable])
			case l.Mutating:
				out.Class = "refused"
			case lerr != nil:
				out.Class = "read-error"
				add("reading-call-failed|"+l.Name+"|"+errShape(lerr.Error()), l.Name+" failed on an intact image: "+lerr.Error())
			default:
				out.Class = "read-ok"
			}
		}
		// no byte changed, no write reached the device
		if dev != nil {
			if dev.Writes != startWrites {
				var w string
				for _, e := range dev.Events {
					if e.Kind == memdev.EvWrite {
						w = fmt.Sprintf("WriteAt(off=%d,len=%d)", e.Off, e.Len)
						break
					}
				}
				last := "open"
				if len(hist) > 0 {
					last = letters[hist[len(hist)-1]].Name
				}
				add("device-written|after="+last, fmt.Sprintf("%d writes reached the device, first %s", dev.Writes-startWrites, w))
			} else if dev.Digest() != im.Dev.Digest() {
				add("image-changed", "the image bytes changed")
			}
		} else {
			raw, _ := os.ReadFile(im.File)
			if sha256.Sum256(raw) != fileHash {
				add("file-changed", "the image file changed on disk")
				_ = os.WriteFile(im.File, im.Dev.Bytes(0, im.Dev.Size()), 0o644)
			}
		}
		return out
	}
	return explore.Scenario{Name: name, Letters: names, Run: run, MaxDepth: depth}
}

func c11Targets(quick bool) []c11Target {
	var ts []c11Target
	for _, k := range []string{"fat12", "fat32", "fat16", "ext4", "iso", "squashfs"} {
		for _, tb := range []string{"gpt", "mbr", "none"} {
			for _, m := range []string{"ro-memdev", "ro-failing", "ro-failing-writer", "ro-open", "ro-frompath", "rw-memdev"} {
				if quick {
					if k == "fat16" || (tb == "mbr" && k != "fat32") || (tb == "none" && k != "ext4" && k != "iso") {
						continue
					}
					if (m == "ro-open" || m == "ro-frompath") && !(k == "fat32" || k == "ext4") {
						continue
					}
				}
				ts = append(ts, c11Target{k, tb, m})
			}
		}
	}
	for _, k := range []string{"fat32", "ext4"} {
		for _, m := range []string{"rw-memdev", "ro-memdev", "ro-failing"} {
			ts = append(ts, c11Target{k, "gptbad", m})
		}
	}
	for _, k := range []string{"fat32", "ext4"} {
		ts = append(ts, c11Target{k, "gpt", "ro-osfile"}, c11Target{k, "none", "ro-osfile"})
	}
	// FAT images holding an empty file the way other implementations store it (no cluster)
	for _, k := range []string{"fat16x", "fat32x", "fat32y"} {
		for _, m := range []string{"rw-memdev", "ro-memdev"} {
			ts = append(ts, c11Target{k, "none", m})
			if !quick {
				ts = append(ts, c11Target{k, "gpt", m})
			}
		}
	}
	return ts
}

func C11(r *ev.Run) {
	depth := 2
	t := &mcTotals{allFix: false, classes: map[string]int64{}}
	for _, tg := range c11Targets(r.Quick()) {
		if r.OutOfTime() {
			t.anyCapped = true
			break
		}
		d := depth
		if !r.Quick() && (tg.Mode == "ro-memdev" || tg.Mode == "rw-memdev") && tg.Table == "gpt" {
			d = 3
		}
		if tg.Mode == "ro-open" || tg.Mode == "ro-frompath" || tg.Mode == "ro-osfile" {
			d = 1
			if !r.Quick() {
				d = 2
			}
		}
		sc := tg.scenario(d)
		st := explore.BFS(prefixedReporter{r, "c11", "readonly"}, sc)
		t.states += st.States
		t.transitions += st.Transitions
		if st.MaxDepth > t.maxDepth {
			t.maxDepth = st.MaxDepth
		}
		for k, v := range st.Classes {
			t.classes[k] += v
		}
		t.perScen = append(t.perScen, map[string]any{"scenario": sc.Name, "letters": len(sc.Letters), "histories": st.Transitions, "depth_completed": st.MaxDepth})
		for _, s := range st.Samples {
			r.Sample(map[string]any{"scenario": sc.Name, "history": s})
		}
	}
	t.write(r)
	r.Assume("a history is a state (no merging): read-only access must not change the image, so every history of entry points up to the depth is executed on a fresh read-only open")
}
