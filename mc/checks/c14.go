package checks

import (
	"bufio"
	"encoding/hex"
	"encoding/json"
	"fmt"
	"os"
	"os/exec"
	"sort"
	"strconv"
	"strings"
	"sync"
	"time"

	"github.com/diskfs/go-diskfs/partition/gpt"
	"github.com/diskfs/go-diskfs/partition/mbr"
	"github.com/diskfs/go-diskfs/verifhook/vtime"

	"verifmc/ev"
	"verifmc/explore"
	"verifmc/memdev"
)

func init() {
	register("C14", "model_checking", C14)
	workers["c14"] = c14Worker
	Replayers["C14"] = func(raw []byte) string {
		if out, ok := replayForeign(raw, "C14"); ok {
			return out
		}
		var c struct {
			Scenario string   `json:"scenario"`
			Indices  []uint16 `json:"indices"`
			Epoch    string   `json:"epoch"`
			Tier     string   `json:"tier"`
		}
		if err := json.Unmarshal(raw, &c); err != nil || c.Scenario == "" {
			return "table cases are replayed by re-running the check (in-process, < 5 s)"
		}
		// run the three variants for this one history and compare
		var ds []string
		for v := 0; v < 3; v++ {
			cmd := exec.Command(vmcPath(), "worker", "c14", strconv.Itoa(v), c.Epoch, c.Tier, "-", c.Scenario, joinU16(c.Indices))
			cmd.Env = append(os.Environ(), "TZ="+c14Zones[v%len(c14Zones)])
			out, err := cmd.Output()
			if err != nil {
				return "worker failed: " + err.Error()
			}
			ds = append(ds, strings.TrimSpace(string(out)))
		}
		if ds[0] == ds[1] && ds[1] == ds[2] {
			return "holds"
		}
		return fmt.Sprintf("volume digests differ between executions: %v", ds)
	}
}

// the local time zone is part of the process environment: each of the three executions runs in another zone
// (UTC, +09:00, and -03:30 with daylight saving)
var c14Zones = []string{"UTC", "Asia/Tokyo", "America/St_Johns"}

func vmcPath() string {
	if p := os.Getenv("VERIF_VMC"); p != "" {
		return p
	}
	p, _ := os.Executable()
	return p
}

func joinU16(h []uint16) string {
	var sb strings.Builder
	for i, x := range h {
		if i > 0 {
			sb.WriteByte(',')
		}
		sb.WriteString(strconv.Itoa(int(x)))
	}
	return sb.String()
}

// variant = (wall clock, start offset of the volume, process)
type c14Variant struct {
	Clock time.Time
	Step  time.Duration
	Start int64
}

var c14Variants = []c14Variant{
	{time.Date(2023, 11, 14, 22, 13, 20, 0, time.UTC), 1370 * time.Millisecond, 0},
	{time.Date(2024, 11, 14, 22, 13, 21, 500, time.UTC), 2110 * time.Millisecond, 0}, // one year and one second later
	{time.Date(2031, 2, 3, 4, 5, 7, 0, time.UTC), 17 * time.Second, 1<<20 + 512},     // other start offset (LBA 2049: not a multiple of 4 KiB), other clock
}

func c14Scens(variant int, quick bool) []*fatScen {
	depth := 3
	if !quick {
		depth = 4
	}
	start := c14Variants[variant].Start
	var out []*fatScen
	cfgs := []fatCfg{{Type: 12, Size: 64 << 10}, {Type: 16, Size: 4400 << 10}, {Type: 32, Size: 64 << 10}}
	if !quick {
		cfgs = append(cfgs, fatCfg{Type: 12, Size: 4<<20 + 512}, fatCfg{Type: 32, Size: 1 << 20})
	}
	for _, c := range cfgs {
		c.Start = start
		c.Reproducible = true
		ss := fatScenarios(c, "digest", depth, quick)
		out = append(out, ss...)
		if c.Size <= 1<<20 {
			// fill / empty / refill: how much fits - which call is the first to be refused - must not depend on where the
			// volume sits on the device
			out = append(out, fatFillScenario(c, "digest", depth))
		}
	}
	// names are kept independent of the start offset so that the variants can be matched
	for _, s := range out {
		s.Name = fmt.Sprintf("%s/fat%d/%d", s.Name, s.Cfg.Type, s.Cfg.Size)
	}
	return out
}

// worker: vmc worker c14 <variant> <epoch> <tier> <outfile|-> [scenario indices]
func c14Worker(args []string) {
	variant, _ := strconv.Atoi(args[0])
	epoch := args[1]
	quick := args[2] != "thorough"
	os.Setenv("SOURCE_DATE_EPOCH", epoch)
	v := c14Variants[variant]
	var mu sync.Mutex
	now := v.Clock
	vtime.Set(func() time.Time {
		mu.Lock()
		defer mu.Unlock()
		now = now.Add(v.Step)
		return now
	})
	scens := c14Scens(variant, quick)
	if len(args) > 4 && args[3] == "-" {
		// single history (replay)
		for _, sc := range scens {
			if sc.Name == args[4] {
				var h []uint16
				for _, x := range strings.Split(args[5], ",") {
					if x != "" {
						n, _ := strconv.Atoi(x)
						h = append(h, uint16(n))
					}
				}
				o := sc.scenario(nil).Run(h)
				fmt.Println(o.Aux)
			}
		}
		return
	}
	f, err := os.Create(args[3])
	if err != nil {
		fmt.Fprintln(os.Stderr, err)
		os.Exit(2)
	}
	w := bufio.NewWriter(f)
	rep := &nullReporter{deadline: time.Now().Add(20 * time.Minute)}
	for _, sc := range scens {
		es := sc.scenario(nil)
		name := sc.Name
		es.OnResult = func(h []uint16, o explore.Outcome) {
			fmt.Fprintf(w, "%s|%s|%s|%s\n", name, joinU16(h), o.Aux, o.Class)
		}
		st := explore.BFS(rep, es)
		fmt.Fprintf(w, "#%s|%d|%d|%d\n", name, st.States, st.Transitions, st.MaxDepth)
	}
	w.Flush()
	f.Close()
}

type nullReporter struct{ deadline time.Time }

func (n *nullReporter) Report(sig, msg string, cas any) bool { return false }
func (n *nullReporter) IsKnown(string) bool                  { return false }
func (n *nullReporter) OutOfTime() bool                      { return time.Now().After(n.deadline) }

func C14(r *ev.Run) {
	epochs := []string{"0", "1", "315532799", "1700000001"}
	if r.Quick() {
		epochs = []string{"0", "315532799", "1700000001"}
	}
	scratch := os.Getenv("VERIF_SCRATCH")
	if scratch == "" {
		scratch = os.TempDir()
	}
	type job struct {
		epoch   string
		variant int
		file    string
		err     error
	}
	var jobs []*job
	for _, e := range epochs {
		for v := range c14Variants {
			jobs = append(jobs, &job{e, v, fmt.Sprintf("%s/c14-%s-%d.txt", scratch, e, v), nil})
		}
	}
	var wg sync.WaitGroup
	sem := make(chan struct{}, 8)
	for _, j := range jobs {
		wg.Add(1)
		go func(j *job) {
			defer wg.Done()
			sem <- struct{}{}
			defer func() { <-sem }()
			cmd := exec.Command(vmcPath(), "worker", "c14", strconv.Itoa(j.variant), j.epoch, r.Tier, j.file)
			cmd.Env = append(os.Environ(), "GOMAXPROCS=4", "TZ="+c14Zones[j.variant%len(c14Zones)])
			if out, err := cmd.CombinedOutput(); err != nil {
				j.err = fmt.Errorf("%v: %s", err, firstWords(string(out)))
			}
		}(j)
	}
	wg.Wait()
	var states, transitions int64
	maxDepth := 0
	distinctDigests := map[string]bool{}
	classes := map[string]int64{}
	var perScen []map[string]any
	for _, e := range epochs {
		var maps [3]map[string]string
		bad := false
		for v := 0; v < 3; v++ {
			j := jobs[0]
			for _, x := range jobs {
				if x.epoch == e && x.variant == v {
					j = x
				}
			}
			if j.err != nil {
				r.Report("c14|infra|worker", j.err.Error(), nil)
				bad = true
				continue
			}
			maps[v] = map[string]string{}
			f, err := os.Open(j.file)
			if err != nil {
				r.Report("c14|infra|worker-output", err.Error(), nil)
				bad = true
				continue
			}
			sc := bufio.NewScanner(f)
			sc.Buffer(make([]byte, 1<<20), 1<<20)
			for sc.Scan() {
				ln := sc.Text()
				if strings.HasPrefix(ln, "#") {
					if v == 0 {
						p := strings.Split(ln[1:], "|")
						s, _ := strconv.ParseInt(p[1], 10, 64)
						t, _ := strconv.ParseInt(p[2], 10, 64)
						d, _ := strconv.Atoi(p[3])
						states += s
						transitions += t
						if d > maxDepth {
							maxDepth = d
						}
						perScen = append(perScen, map[string]any{"scenario": p[0], "epoch": e, "states": s, "transitions": t, "depth_completed": d})
					}
					continue
				}
				p := strings.SplitN(ln, "|", 4)
				maps[v][p[0]+"|"+p[1]] = p[2]
				if v == 0 {
					distinctDigests[p[2]] = true
					classes[strings.SplitN(p[3], ":", 3)[0]+":"+kindOf(p[3])]++
				}
			}
			f.Close()
			os.Remove(j.file)
		}
		if bad {
			continue
		}
		keys := make([]string, 0, len(maps[0]))
		for k := range maps[0] {
			keys = append(keys, k)
		}
		sort.Slice(keys, func(i, j int) bool {
			if len(keys[i]) != len(keys[j]) {
				return len(keys[i]) < len(keys[j])
			}
			return keys[i] < keys[j]
		})
		for _, k := range keys {
			for v := 1; v < 3; v++ {
				d, ok := maps[v][k]
				if !ok {
					continue // the variants explored different state sets only if a digest differed earlier on this path
				}
				if d != maps[0][k] {
					p := strings.SplitN(k, "|", 2)
					what := "clock/process"
					if v == 2 {
						what = "start-offset/clock/process"
					}
					var idx []uint16
					for _, x := range strings.Split(p[1], ",") {
						n, _ := strconv.Atoi(x)
						idx = append(idx, uint16(n))
					}
					scn := strings.Split(p[0], "/")[0]
					r.Report("c14|fat|"+scn+"|digest-differs|"+what+"|epoch="+epochClass(e), fmt.Sprintf("%s history %s with SOURCE_DATE_EPOCH=%s: the volume bytes differ between execution 0 and execution %d (%s)", p[0], p[1], e, v, what),
						map[string]any{"scenario": p[0], "indices": idx, "epoch": e, "tier": r.Tier})
				}
			}
		}
		if len(maps[1]) != len(maps[0]) || len(maps[2]) != len(maps[0]) {
			r.Report("c14|fat|explored-sets-differ|epoch="+epochClass(e), fmt.Sprintf("the three executions explored %d/%d/%d transitions: behaviour depends on clock, process or start offset", len(maps[0]), len(maps[1]), len(maps[2])), nil)
		}
	}
	// tables: same table written twice is byte-identical; rewriting a table read from disk changes nothing
	var tblCases, tblOK int64
	for _, c := range enumC02(true) {
		c := c
		if c.Kind == "gpt" {
			if c.DiskGUID == "" {
				continue
			}
			skip := false
			for _, p := range c.GPT {
				if p.GUID == "" {
					skip = true
				}
			}
			if skip || mustRefuseGPT(&c) != "" {
				continue
			}
		}
		tblCases++
		write := func() (*memdev.Dev, error) {
			d := memdev.New(c.DiskSize)
			prefill(d, &c)
			var err error
			if c.Kind == "gpt" {
				err = buildGPT(&c).Write(d, c.DiskSize)
			} else {
				t := &mbr.Table{LogicalSectorSize: c.LSS, PhysicalSectorSize: c.LSS}
				for _, p := range c.MBR {
					t.Partitions = append(t.Partitions, &mbr.Partition{Index: p.Index, Type: mbr.Type(p.Type), Bootable: p.Bootable, Start: p.Start, Size: p.Size})
				}
				err = t.Write(d, c.DiskSize)
			}
			return d, err
		}
		d1, e1 := write()
		d2, e2 := write()
		if e1 != nil || e2 != nil {
			continue
		}
		if d1.Digest() != d2.Digest() {
			r.Report("c14|table|"+c.Kind+"|write-twice-differs", "writing the same table twice gives different bytes", c)
			continue
		}
		before := d1.Digest()
		var werr error
		if c.Kind == "gpt" {
			t, err := gpt.Read(be(d1, true), c.LSS, c.LSS)
			if err != nil {
				continue
			}
			werr = t.Write(d1, c.DiskSize)
		} else if c.Over != "gpt" {
			t, err := mbr.Read(be(d1, true), c.LSS, c.LSS)
			if err != nil {
				continue
			}
			werr = t.Write(d1, c.DiskSize)
		}
		if werr != nil {
			r.Report("c14|table|"+c.Kind+"|rewrite-refused", "a table read from disk cannot be written back: "+werr.Error(), c)
			continue
		}
		if d1.Digest() != before {
			r.Report("c14|table|"+c.Kind+"|rewrite-changes-bytes", "Read followed by Write of the same table changed the disk", c)
			continue
		}
		tblOK++
	}
	// tables written by other tools (entry arrays of other sizes than the library's own 128 slots): read, then written back
	var frn, frnOK int64
	for _, fc := range enumForeign(r.Quick()) {
		fc := fc
		if fc.Mod != "none" {
			continue
		}
		res := runForeignCase(&fc)
		if res.Outcome != "ok" {
			continue
		}
		frn++
		if res.C14Sig != "" {
			r.Report(res.C14Sig, res.C14Msg, map[string]any{"foreign": fc})
			continue
		}
		frnOK++
	}
	r.Set("foreign_table_cases_rewritten", frn)
	r.Set("foreign_table_cases_identical", frnOK)
	r.Set("states", states)
	r.Set("transitions", transitions*3)
	r.Set("traces_validated_against_impl", transitions*3)
	r.Set("max_depth", int64(maxDepth))
	r.Set("scenarios", perScen)
	r.Set("distinct_volume_digests", int64(len(distinctDigests)))
	r.Set("outcome_classes", classes)
	r.Set("distinct_outcomes", int64(len(classes)))
	r.Set("table_cases_written_twice_and_rewritten", tblCases)
	r.Set("table_cases_identical", tblOK)
	r.Set("epochs", epochs)
	r.Set("exhaustive", true)
	r.Sample(map[string]any{"variants": "three child processes per SOURCE_DATE_EPOCH: clocks 2023-11-14T22:13:20Z+1.37s/call, +1 year 1 s (+2.11 s/call), 2031 (+17 s/call, volume at 1 MiB + 512 bytes)", "compared": "SHA-256 of the volume byte range after every transition of every history"})
	r.Assume("the wall clock is owned through the vtime seam (every time.Now() in the library is routed through it by the build overlay), advancing on every call")
}

func kindOf(class string) string {
	p := strings.Split(class, ":")
	if len(p) > 1 {
		return p[1]
	}
	return ""
}

func epochClass(e string) string {
	switch e {
	case "0":
		return "zero"
	case "315532799":
		return "pre-1980"
	}
	return "other"
}

var _ = hex.EncodeToString
