package checks

import (
	"fmt"
	"strings"
)

// shape of a tree: nested lists; a leaf is a file, a node with kids (possibly empty) a directory.
type tnode struct {
	dir  bool
	kids []*tnode
}

// forests returns all ordered forests with exactly n nodes and height <= depth.
func forests(n, depth int) [][]*tnode {
	if n == 0 {
		return [][]*tnode{nil}
	}
	if depth == 0 {
		return nil
	}
	var out [][]*tnode
	// first tree takes k nodes (1..n), the rest of the forest n-k
	for k := 1; k <= n; k++ {
		var firsts []*tnode
		if k == 1 {
			firsts = append(firsts, &tnode{dir: false})
		}
		for _, sub := range forests(k-1, depth-1) {
			firsts = append(firsts, &tnode{dir: true, kids: sub})
		}
		for _, f := range firsts {
			for _, rest := range forests(n-k, depth) {
				out = append(out, append([]*tnode{f}, rest...))
			}
		}
	}
	return out
}

func pathSeed(p string) int {
	h := 7
	for _, c := range p {
		h = (h*131 + int(c)) % 1000003
	}
	return h
}

// materialise assigns names and sizes to a shape.
func materialise(f []*tnode, names []string, rot int, sizes []int, srot int, content func(path string, size int) []byte) *treeSpec {
	t := &treeSpec{Files: map[string][]byte{}}
	fileNo := 0
	var rec func(prefix string, nodes []*tnode, level int)
	rec = func(prefix string, nodes []*tnode, level int) {
		for i, n := range nodes {
			name := names[(i+rot+level)%len(names)]
			p := name
			if prefix != "" {
				p = prefix + "/" + name
			}
			if n.dir {
				// directories do not carry an extension
				// directory names are unique in their directory whatever the case mapping of the target format
				dn := fmt.Sprintf("%s-dir%d%d", string([]rune(strings.ToLower(strings.SplitN(name, ".", 2)[0]))[:1]), level, i)
				p = dn
				if prefix != "" {
					p = prefix + "/" + dn
				}
				t.Dirs = append(t.Dirs, p)
				rec(p, n.kids, level+1)
				continue
			}
			sz := sizes[(fileNo+srot)%len(sizes)]
			fileNo++
			t.Files[p] = content(p, sz)
		}
	}
	rec("", f, 0)
	return t
}

func defaultContent(p string, size int) []byte { return patternBytes(pathSeed(p), size) }

// enumTrees: all shapes with 1..maxNodes nodes and height <= 3, each with nameRots x sizeRots assignments.
func enumTrees(maxNodes int, names []string, sizes []int, nameRots, sizeRots []int, content func(string, int) []byte) []*treeSpec {
	var out []*treeSpec
	out = append(out, &treeSpec{Files: map[string][]byte{}}) // the empty tree
	for n := 1; n <= maxNodes; n++ {
		for _, f := range forests(n, 3) {
			for _, r := range nameRots {
				for _, s := range sizeRots {
					out = append(out, materialise(f, names, r, sizes, s, content))
				}
			}
		}
	}
	return out
}
