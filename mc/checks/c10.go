package checks

import (
	"bytes"
	"crypto/sha256"
	"encoding/binary"
	"encoding/json"
	"fmt"
	"io"
	"os"
	"strings"

	"github.com/diskfs/go-diskfs/filesystem"
	"github.com/diskfs/go-diskfs/filesystem/iso9660"
	"github.com/diskfs/go-diskfs/filesystem/squashfs"

	"verifmc/ev"
	"verifmc/explore"
	"verifmc/memdev"
)

func init() {
	register("C10", "model_checking", C10)
	Replayers["C10"] = func(raw []byte) string {
		var mf struct {
			File string `json:"file"`
		}
		if json.Unmarshal(raw, &mf) == nil && mf.File != "" {
			var res []string
			c10ManyFiles(func(sig, msg string, cas any) bool {
				res = append(res, sig+": "+msg)
				return true
			})
			if len(res) == 0 {
				return "holds"
			}
			return strings.Join(res, "\n")
		}
		var hc explore.HistCase
		if err := json.Unmarshal(raw, &hc); err != nil {
			return "bad case"
		}
		for _, t := range c10Targets(false) {
			sc, err := t.scenario(99)
			if err != nil {
				continue
			}
			if sc.Name != hc.Scenario {
				continue
			}
			var res []string
			for i := 1; i <= len(hc.Indices); i++ {
				for _, v := range sc.Run(hc.Indices[:i]).Viols {
					res = append(res, v.Sig+": "+v.Msg)
				}
			}
			if len(res) == 0 {
				return "holds"
			}
			return strings.Join(res, "\n")
		}
		for _, t := range c10TwoTargets() {
			sc, err := t.twoHandleScenario(99)
			if err != nil || sc.Name != hc.Scenario {
				continue
			}
			var res []string
			for i := 1; i <= len(hc.Indices); i++ {
				for _, v := range sc.Run(hc.Indices[:i]).Viols {
					res = append(res, v.Sig+": "+v.Msg)
				}
			}
			if len(res) == 0 {
				return "holds"
			}
			return strings.Join(res, "\n")
		}
		return "unknown scenario " + hc.Scenario
	}
}

func c10TwoTargets() []c10Target {
	var ts []c10Target
	for _, fs := range []struct {
		n string
		c int
	}{{"fat12", 512}, {"fat16", 1024}, {"fat32", 512}, {"ext4", 1024}, {"iso9660", 2048}, {"squashfs", 4096}, {"squashfs-nofrag", 4096}} {
		for _, rnd := range []bool{false, true} {
			if rnd && !strings.HasPrefix(fs.n, "squashfs") {
				continue
			}
			ts = append(ts, c10Target{FS: fs.n, Size: 2*fs.c + 3, C: fs.c, Other: fs.c + fs.c/2 + 9, Random: rnd})
		}
	}
	return ts
}

type c10Target struct {
	FS     string // fat12 fat16 fat32 ext4 iso9660 squashfs squashfs-nofrag
	Size   int
	C      int  // cluster / block size
	Other  int  // size of the second file (0 = C+9)
	Random bool // incompressible contents (squashfs then stores the blocks as they are)
}

type rsLetter struct {
	Kind   string // read seek close
	N      int
	Off    int64
	Whence int
}

func (l rsLetter) String() string {
	switch l.Kind {
	case "read":
		return fmt.Sprintf("Read(%d)", l.N)
	case "seek":
		return fmt.Sprintf("Seek(%d,%s)", l.Off, [...]string{"Start", "Current", "End"}[l.Whence])
	}
	return "Close"
}

func c10Letters(size, c int) []rsLetter {
	var ls []rsLetter
	for _, n := range []int{0, 1, 7, c - 1, c, c + 1, 4 * c} {
		ls = append(ls, rsLetter{Kind: "read", N: n})
	}
	for w := 0; w < 3; w++ {
		for _, o := range []int64{0, 1, -1, int64(c), -int64(c), int64(size), int64(size + 5), -int64(size + 1)} {
			ls = append(ls, rsLetter{Kind: "seek", Off: o, Whence: w})
		}
	}
	ls = append(ls, rsLetter{Kind: "close"})
	return ls
}

// opener returns a function that opens a fresh handle on a fresh filesystem object over the shared image.
func (t c10Target) opener() (func() (filesystem.File, error), []byte, error) {
	openFS, data, _, err := t.fsOpener()
	if err != nil {
		return nil, nil, err
	}
	return func() (filesystem.File, error) {
		fs, err := openFS()
		if err != nil {
			return nil, err
		}
		return fs.OpenFile("DATA.BIN", os.O_RDONLY)
	}, data, nil
}

// fsOpener builds the image once and returns a function that opens a fresh filesystem object over it, the contents of
// DATA.BIN and the contents of OTHER.BIN.
func (t c10Target) fsOpener() (func() (filesystem.FileSystem, error), []byte, []byte, error) {
	data := patternBytes(t.Size%97+3, t.Size)
	osz := t.C + 9
	if t.Other > 0 {
		osz = t.Other
	}
	other := patternBytes(5, osz)
	if t.Random {
		data, other = randomBytes(uint64(t.Size)+77, t.Size), randomBytes(uint64(osz)+78, osz)
	}
	name := "DATA.BIN"
	tree := &treeSpec{Files: map[string][]byte{name: data, "OTHER.BIN": other}}
	switch {
	case strings.HasPrefix(t.FS, "fat"):
		cfg := fatCfg{Type: 12, Size: 64 << 10, Start: 512}
		switch t.FS {
		case "fat16":
			cfg = fatCfg{Type: 16, Size: 4400 << 10, Start: 512}
		case "fat32":
			cfg = fatCfg{Type: 32, Size: 64 << 10, Start: 512}
		}
		s, err := newFatSys(cfg, "none")
		if err != nil {
			return nil, nil, nil, err
		}
		for _, op := range []struct {
			p string
			d []byte
		}{{"OTHER.BIN", tree.Files["OTHER.BIN"]}, {name, data}} {
			f, err := s.fs.OpenFile(op.p, os.O_CREATE|os.O_RDWR)
			if err != nil {
				return nil, nil, nil, err
			}
			if len(op.d) > 0 {
				if _, err := f.Write(op.d); err != nil {
					return nil, nil, nil, err
				}
			}
			f.Close()
		}
		dev := s.dev
		return func() (filesystem.FileSystem, error) { return fatRead(cfg, dev, true) }, data, other, nil
	case t.FS == "ext4-frag":
		// the same file written in three pieces interleaved with another file, so that it has several extents
		img, fs, err := buildExt4(&treeSpec{}, 2<<20, 1<<20, ext4SmallParams(2, true))
		if err != nil {
			return nil, nil, nil, err
		}
		var werr error
		if pm := guard(func() {
			a, e := fs.OpenFile(name, os.O_CREATE|os.O_RDWR)
			if e != nil {
				werr = e
				return
			}
			b, e := fs.OpenFile("OTHER.BIN", os.O_CREATE|os.O_RDWR)
			if e != nil {
				werr = e
				return
			}
			third := (len(data) + 2) / 3
			for i := 0; i < len(data); i += third {
				j := i + third
				if j > len(data) {
					j = len(data)
				}
				if _, e := a.Write(data[i:j]); e != nil {
					werr = e
					return
				}
				if _, e := b.Write(patternBytes(i, t.C+5)); e != nil {
					werr = e
					return
				}
			}
		}); pm != "" {
			return nil, nil, nil, fmt.Errorf("%s", pm)
		}
		if werr != nil {
			return nil, nil, nil, werr
		}
		return func() (filesystem.FileSystem, error) { return img.open(true) }, data, other, nil
	case t.FS == "ext4":
		img, _, err := buildExt4(tree, 2<<20, 1<<20, ext4SmallParams(2, true))
		if err != nil {
			return nil, nil, nil, err
		}
		return func() (filesystem.FileSystem, error) { return img.open(true) }, data, other, nil
	case t.FS == "iso9660":
		img, err := buildISO(tree, iso9660.FinalizeOptions{RockRidge: true}, 2048, 0)
		if err != nil {
			return nil, nil, nil, err
		}
		return func() (filesystem.FileSystem, error) { return img.open(true) }, data, other, nil
	case t.FS == "squashfs-sparse":
		// A file whose middle block is a hole (block size entry 0), as mksquashfs writes for runs of zeroes. The
		// library's own Finalize never emits one, so the image is derived from one it wrote: three uncompressed,
		// incompressible full blocks b1 b2 b3 with uncompressed inodes; the middle entry of the inode's block list is
		// set to 0. A hole occupies no space, so the third block is then found where b2 was stored: the file must read
		// as b1, 4096 zeroes, b2 (checked below with one sequential read before anything is explored).
		c := t.C
		b := randomBytes(17, 3*c)
		only := &treeSpec{Files: map[string][]byte{name: b}}
		img, err := buildSquash(only, squashfs.FinalizeOptions{NoFragments: true, NoCompressData: true, NoCompressInodes: true, NonSparse: true}, int64(c), 0)
		if err != nil {
			return nil, nil, nil, err
		}
		entry := make([]byte, 4)
		binary.LittleEndian.PutUint32(entry, uint32(c)|1<<24)
		pat := bytes.Repeat(entry, 3)
		raw := img.Dev.Peek(0, int(img.Size))
		at := bytes.Index(raw, pat)
		if at < 0 || bytes.Index(raw[at+1:], pat) >= 0 {
			return nil, nil, nil, fmt.Errorf("n/a: block list of the three-block file not found exactly once")
		}
		img.Dev.Poke([]byte{0, 0, 0, 0}, int64(at+4))
		want := append(append(append([]byte{}, b[:c]...), make([]byte, c)...), b[c:2*c]...)
		return func() (filesystem.FileSystem, error) { return img.open(true) }, want, nil, nil
	default:
		img, err := buildSquash(tree, squashfs.FinalizeOptions{NoFragments: t.FS == "squashfs-nofrag"}, 4096, 0)
		if err != nil {
			return nil, nil, nil, err
		}
		return func() (filesystem.FileSystem, error) { return img.open(true) }, data, other, nil
	}
}

func (t c10Target) scenario(depth int) (explore.Scenario, error) {
	open, data, err := t.opener()
	name := fmt.Sprintf("readseek/%s/size=%d", t.FS, t.Size)
	if err != nil {
		return explore.Scenario{Name: name}, err
	}
	letters := c10Letters(t.Size, t.C)
	names := make([]string, len(letters))
	for i, l := range letters {
		names[i] = l.String()
	}
	size := int64(len(data))
	run := func(hist []uint16) explore.Outcome {
		var out explore.Outcome
		add := func(sig, msg string) {
			out.Viols = append(out.Viols, explore.Viol{Sig: t.FS + "|" + sig, Msg: fmt.Sprintf("%s after %v: %s", name, histNames(names, hist), msg)})
		}
		var f filesystem.File
		var oerr error
		if pm := guard(func() { f, oerr = open() }); pm != "" {
			add("open|"+pm, pm)
			out.Prune = true
			return out
		}
		if oerr != nil {
			add("open|error", "cannot open the file the library wrote: "+oerr.Error())
			out.Prune = true
			return out
		}
		pos, closed, lastKind := int64(0), false, "none"
		lastBlock := int64(-1) // block that the most recent data-returning Read ended in: handles cache their last block
		for i, li := range hist {
			l := letters[li]
			last := i == len(hist)-1
			judge := func(sig, msg string) {
				if last {
					add(sig, msg)
				}
			}
			switch l.Kind {
			case "read":
				buf := make([]byte, l.N)
				for j := range buf {
					buf[j] = 0xEE
				}
				var k int
				var err error
				if pm := guard(func() { k, err = f.Read(buf) }); pm != "" {
					what := "read"
					if closed {
						what = "read-after-close"
					}
					judge(what+"|"+pm, fmt.Sprintf("%s at position %d panicked: %s", l, pos, pm))
					out.Prune = true
					out.Class = "panic"
					out.Key = sha256.Sum256([]byte(fmt.Sprintf("panic|%d|%v|%d", pos, closed, li)))
					return out
				}
				if closed {
					if err == nil || k != 0 {
						judge("read-after-close|returned-data", fmt.Sprintf("%s on a closed handle returned (%d, %v)", l, k, err))
					}
					out.Class = "closed-read-refused"
					break
				}
				remaining := size - pos
				if remaining < 0 {
					remaining = 0
				}
				lim := int64(l.N)
				if remaining < lim {
					lim = remaining
				}
				switch {
				case k < 0 || int64(k) > int64(l.N):
					judge("read|count-out-of-range", fmt.Sprintf("%s returned n=%d", l, k))
					out.Prune = true
				case int64(k) > lim:
					judge("read|more-than-remain", fmt.Sprintf("%s at position %d of %d returned %d bytes, only %d remain", l, pos, size, k, remaining))
					out.Prune = true
				default:
					if k > 0 && string(buf[:k]) != string(data[pos:pos+int64(k)]) {
						judge("read|wrong-bytes", fmt.Sprintf("%s at position %d returned bytes that are not file[%d:%d]", l, pos, pos, pos+int64(k)))
					}
					if err != nil && err != io.EOF {
						judge("read|error", fmt.Sprintf("%s at position %d failed: %v", l, pos, err))
					}
					if l.N > 0 && remaining > 0 && k == 0 {
						judge("read|no-progress", fmt.Sprintf("%s at position %d of %d returned (0, %v)", l, pos, size, err))
					}
					if pos+int64(k) < size && err == io.EOF {
						judge("read|early-eof", fmt.Sprintf("%s at position %d of %d returned io.EOF with %d bytes still unread", l, pos, size, size-pos-int64(k)))
					}
					if l.N > 0 && remaining == 0 && !(k == 0 && err == io.EOF) {
						judge("read|no-eof-at-end", fmt.Sprintf("%s at/after the end (position %d, size %d) returned (%d, %v) instead of (0, io.EOF)", l, pos, size, k, err))
					}
					pos += int64(k)
					switch {
					case err == io.EOF:
						out.Class = "read-eof"
					case k < int(lim):
						out.Class = "read-short"
					default:
						out.Class = "read-full"
					}
				}
				lastKind = "read"
				if k > 0 {
					lastBlock = (pos - 1) / int64(t.C)
				}
			case "seek":
				var np int64
				var err error
				if pm := guard(func() { np, err = f.Seek(l.Off, l.Whence) }); pm != "" {
					if !closed {
						judge("seek|"+pm, fmt.Sprintf("%s panicked: %s", l, pm))
					}
					out.Prune = true
					out.Class = "panic"
					out.Key = sha256.Sum256([]byte(fmt.Sprintf("panic|%d|%v|%d", pos, closed, li)))
					return out
				}
				if closed {
					out.Class = "closed-seek"
					break
				}
				want := l.Off
				switch l.Whence {
				case io.SeekCurrent:
					want = pos + l.Off
				case io.SeekEnd:
					want = size + l.Off
				}
				if want < 0 {
					if err == nil {
						judge("seek|negative-accepted", fmt.Sprintf("%s from position %d (size %d) would be at %d but returned (%d, nil)", l, pos, size, want, np))
						pos = np
					}
					out.Class = "seek-negative-refused"
				} else {
					if err != nil {
						judge("seek|error", fmt.Sprintf("%s from position %d failed: %v", l, pos, err))
					} else if np != want {
						judge("seek|wrong-position|whence="+[...]string{"Start", "Current", "End"}[l.Whence], fmt.Sprintf("%s from position %d (size %d) returned %d, io.Seeker says %d", l, pos, size, np, want))
						out.Prune = true
					}
					pos = want
					out.Class = "seek-ok"
				}
				lastKind = "seek"
			case "close":
				if pm := guard(func() { _ = f.Close() }); pm != "" {
					judge("close|"+pm, pm)
				}
				closed = true
				lastKind = "close"
				out.Class = "close"
			}
		}
		if pos > size+2*int64(t.C)+8 {
			out.Prune = true
		}
		out.Key = sha256.Sum256([]byte(fmt.Sprintf("%d|%v|%s|%d", pos, closed, lastKind, lastBlock)))
		return out
	}
	return explore.Scenario{Name: name, Letters: names, Run: run, MaxDepth: depth, MaxStates: 60000}, nil
}

// twoHandleScenario: ONE filesystem object, two open handles (DATA.BIN and OTHER.BIN), used in turns. Each handle must
// behave as if it were alone: what it returns is a function of its own cursor only. Explored to fixpoint over
// (cursor, block of the last read) of both handles.
func (t c10Target) twoHandleScenario(depth int) (explore.Scenario, error) {
	name := fmt.Sprintf("two-handles/%s/size=%d+%d", t.FS, t.Size, t.Other)
	if t.Random {
		name += "/incompressible"
	}
	openFS, dataA, dataB, err := t.fsOpener()
	if err != nil {
		return explore.Scenario{Name: name}, err
	}
	type hl struct {
		h    int // 0 = DATA.BIN, 1 = OTHER.BIN
		kind string
		n    int
	}
	var letters []hl
	for h := 0; h < 2; h++ {
		letters = append(letters, hl{h, "read", t.C/2 + 1}, hl{h, "read", t.C}, hl{h, "rewind", 0})
	}
	names := make([]string, len(letters))
	for i, l := range letters {
		names[i] = fmt.Sprintf("%s.%s(%d)", [...]string{"A", "B"}[l.h], l.kind, l.n)
	}
	datas := [2][]byte{dataA, dataB}
	run := func(hist []uint16) explore.Outcome {
		var out explore.Outcome
		add := func(sig, msg string) {
			out.Viols = append(out.Viols, explore.Viol{Sig: t.FS + "|two-handles|" + sig, Msg: fmt.Sprintf("%s after %v: %s", name, histNames(names, hist), msg)})
		}
		var fh [2]filesystem.File
		var oerr error
		if pm := guard(func() {
			fs, e := openFS()
			if e != nil {
				oerr = e
				return
			}
			if fh[0], oerr = fs.OpenFile("DATA.BIN", os.O_RDONLY); oerr != nil {
				return
			}
			fh[1], oerr = fs.OpenFile("OTHER.BIN", os.O_RDONLY)
		}); pm != "" || oerr != nil {
			add("open", fmt.Sprintf("cannot open both files: %v %s", oerr, pm))
			out.Prune = true
			return out
		}
		var pos, lastBlock [2]int64
		lastBlock = [2]int64{-1, -1}
		for i, li := range hist {
			l := letters[li]
			last := i == len(hist)-1
			data := datas[l.h]
			size := int64(len(data))
			if l.kind == "rewind" {
				np, err := fh[l.h].Seek(0, io.SeekStart)
				if last && (err != nil || np != 0) {
					add("seek", fmt.Sprintf("Seek(0, Start) returned (%d, %v)", np, err))
				}
				pos[l.h] = 0
				out.Class = "rewind"
				continue
			}
			buf := make([]byte, l.n)
			var k int
			var err error
			if pm := guard(func() { k, err = fh[l.h].Read(buf) }); pm != "" {
				if last {
					add("read|"+pm, pm)
				}
				out.Prune = true
				return out
			}
			rem := size - pos[l.h]
			lim := int64(l.n)
			if rem < lim {
				lim = rem
			}
			switch {
			case int64(k) > lim || k < 0:
				if last {
					add("read|more-than-remain", fmt.Sprintf("handle %d at %d of %d: Read(%d) returned %d", l.h, pos[l.h], size, l.n, k))
				}
				out.Prune = true
				return out
			case k > 0 && string(buf[:k]) != string(data[pos[l.h]:pos[l.h]+int64(k)]):
				if last {
					add("read|wrong-bytes", fmt.Sprintf("handle %d (%s) at position %d: Read(%d) returned %d bytes that are not its file[%d:%d] (first difference at +%d) - another handle was used in between", l.h, [...]string{"DATA.BIN", "OTHER.BIN"}[l.h], pos[l.h], l.n, k, pos[l.h], pos[l.h]+int64(k), firstDiff(buf[:k], data[pos[l.h]:pos[l.h]+int64(k)])))
				}
			case err != nil && err != io.EOF:
				if last {
					add("read|error", fmt.Sprintf("handle %d at %d: %v", l.h, pos[l.h], err))
				}
			case rem > 0 && k == 0:
				if last {
					add("read|no-progress", fmt.Sprintf("handle %d at %d of %d returned (0, %v)", l.h, pos[l.h], size, err))
				}
			case rem == 0 && !(k == 0 && err == io.EOF):
				if last {
					add("read|no-eof-at-end", fmt.Sprintf("handle %d at the end returned (%d, %v)", l.h, k, err))
				}
			}
			pos[l.h] += int64(k)
			if k > 0 {
				lastBlock[l.h] = (pos[l.h] - 1) / int64(t.C)
			}
			switch {
			case err == io.EOF:
				out.Class = "read-eof"
			case int64(k) < lim:
				out.Class = "read-short"
			default:
				out.Class = "read-full"
			}
		}
		out.Key = sha256.Sum256([]byte(fmt.Sprintf("%v|%v", pos, lastBlock)))
		return out
	}
	return explore.Scenario{Name: name, Letters: names, Run: run, MaxDepth: depth, MaxStates: 60000}, nil
}

func histNames(names []string, h []uint16) []string {
	o := make([]string, len(h))
	for i, x := range h {
		o[i] = names[x]
	}
	return o
}

func c10Targets(quick bool) []c10Target {
	var ts []c10Target
	for _, fs := range []struct {
		n string
		c int
	}{{"fat12", 512}, {"fat16", 1024}, {"fat32", 512}, {"ext4", 1024}, {"ext4-frag", 1024}, {"iso9660", 2048}, {"squashfs", 4096}, {"squashfs-nofrag", 4096}, {"squashfs-sparse", 4096}} {
		sizes := []int{0, 1, fs.c - 1, fs.c, fs.c + 1, 2*fs.c + 3}
		if fs.n == "ext4-frag" {
			sizes = []int{3*fs.c + 2, 5 * fs.c}
		} else if fs.n == "squashfs-sparse" {
			sizes = []int{3 * fs.c}
		} else if quick {
			sizes = []int{0, fs.c + 1, 2*fs.c + 3}
			if fs.c > 1024 {
				sizes = []int{0, fs.c + 1}
			}
		}
		for _, s := range sizes {
			ts = append(ts, c10Target{FS: fs.n, Size: s, C: fs.c})
		}
	}
	return ts
}

func C10(r *ev.Run) {
	t := &mcTotals{allFix: true, classes: map[string]int64{}}
	for _, tg := range c10Targets(r.Quick()) {
		if r.OutOfTime() {
			t.anyCapped = true
			break
		}
		depth := 64 // to fixpoint
		if tg.C > 1024 {
			depth = 5
			if r.Quick() {
				depth = 4
			}
		} else if r.Quick() {
			depth = 8
		}
		sc, err := tg.scenario(depth)
		if err != nil {
			r.Report("c10|"+tg.FS+"|build-failed|"+firstWords(err.Error()), fmt.Sprintf("cannot build a %s image holding a %d-byte file: %v", tg.FS, tg.Size, err), tg)
			continue
		}
		st := explore.BFS(prefixedReporter{r, "c10", "readseek"}, sc)
		t.states += st.States
		t.transitions += st.Transitions
		if st.MaxDepth > t.maxDepth {
			t.maxDepth = st.MaxDepth
		}
		if !st.Fixpoint {
			t.allFix = false
		}
		for k, v := range st.Classes {
			t.classes[k] += v
		}
		t.perScen = append(t.perScen, map[string]any{"scenario": sc.Name, "letters": len(sc.Letters), "states": st.States, "transitions": st.Transitions, "depth_completed": st.MaxDepth, "fixpoint": st.Fixpoint})
		for _, s := range st.Samples {
			r.Sample(map[string]any{"scenario": sc.Name, "history": s})
		}
	}
	// two handles on one filesystem object, used in turns
	for _, tg := range c10TwoTargets() {
		if r.OutOfTime() {
			t.anyCapped = true
			break
		}
		sc, err := tg.twoHandleScenario(64)
		if err != nil {
			r.Report("c10|"+tg.FS+"|build-failed|"+firstWords(err.Error()), fmt.Sprintf("cannot build a %s image holding two files: %v", tg.FS, err), tg)
			continue
		}
		st := explore.BFS(prefixedReporter{r, "c10", "readseek"}, sc)
		t.states += st.States
		t.transitions += st.Transitions
		if st.MaxDepth > t.maxDepth {
			t.maxDepth = st.MaxDepth
		}
		if !st.Fixpoint {
			t.allFix = false
		}
		for k, v := range st.Classes {
			t.classes[k] += v
		}
		t.perScen = append(t.perScen, map[string]any{"scenario": sc.Name, "letters": len(sc.Letters), "states": st.States, "transitions": st.Transitions, "depth_completed": st.MaxDepth, "fixpoint": st.Fixpoint})
	}
	// many multi-block files in one squashfs image (the inode table spans several metadata blocks, so that block lists of
	// some inodes straddle a metadata-block boundary): a fixed Read/Seek sequence on every one of them against bytes.Reader
	mfStates, mfTrans := c10ManyFiles(r.Report)
	t.states += mfStates
	t.transitions += mfTrans
	t.perScen = append(t.perScen, map[string]any{"scenario": "readseek/squashfs-many-files", "files": mfStates, "calls": mfTrans, "fixpoint": false})
	t.write(r)
	r.Assume("bytes.Reader semantics are the specification of Read/Seek; a state is (cursor, closed, kind of last call, block the last data-returning Read ended in - handles cache their last block); exploration stops expanding a state whose cursor is more than two blocks past EOF")
	_ = memdev.PageSize
}

// c10ManyFiles: 72 files of 40..80 blocks (incompressible and compressible alternating) in one 4 KiB-block squashfs image.
func c10ManyFiles(report func(sig, msg string, cas any) bool) (files, calls int64) {
	const c = 4096
	tree := &treeSpec{Files: map[string][]byte{}}
	for i := 0; i < 72; i++ {
		n := (40+(i*7)%41)*c + (i*131)%c
		if i%2 == 0 {
			tree.Files[fmt.Sprintf("f%04d.bin", i)] = randomBytes(uint64(3000+i), n)
		} else {
			tree.Files[fmt.Sprintf("f%04d.bin", i)] = patternBytes(i, n)
		}
	}
	for _, nofrag := range []bool{false, true} {
		img, err := buildSquash(tree, squashfs.FinalizeOptions{NoFragments: nofrag}, c, 0)
		if err != nil {
			report("c10|squashfs|build-failed|many-files", "cannot build the many-files image: "+err.Error(), nil)
			return
		}
		fs, err := img.open(true)
		if err != nil {
			report("c10|squashfs|open|many-files", "cannot open the many-files image: "+err.Error(), nil)
			return
		}
		for _, p := range tree.sortedFiles() {
			data := tree.Files[p]
			ref := bytes.NewReader(data)
			var f filesystem.File
			if pm := guard(func() { f, err = fs.OpenFile(p, os.O_RDONLY) }); pm != "" || err != nil {
				report("c10|readseek|squashfs|many-files|open", fmt.Sprintf("%s: %v %s", p, err, pm), map[string]any{"file": p, "no_fragments": nofrag})
				continue
			}
			files++
			type step struct {
				seek   bool
				off    int64
				whence int
				n      int
			}
			steps := []step{{n: c + 1}, {seek: true, off: -int64(2*c + 7), whence: io.SeekEnd}, {n: 2 * c}, {n: 4 * c}, {seek: true, off: int64(len(data) / 2), whence: io.SeekStart}, {n: c - 1}, {seek: true, off: 0, whence: io.SeekStart}, {n: 7}}
			for si, st := range steps {
				calls++
				bad := ""
				if pm := guard(func() {
					if st.seek {
						a, e1 := f.Seek(st.off, st.whence)
						b, e2 := ref.Seek(st.off, st.whence)
						if (e1 == nil) != (e2 == nil) || (e1 == nil && a != b) {
							bad = fmt.Sprintf("Seek(%d,%d) returned (%d,%v), bytes.Reader (%d,%v)", st.off, st.whence, a, e1, b, e2)
						}
						return
					}
					got := make([]byte, st.n)
					want := make([]byte, st.n)
					k, e1 := io.ReadFull(f, got)
					m, _ := io.ReadFull(ref, want)
					if k != m || !bytes.Equal(got[:k], want[:m]) {
						bad = fmt.Sprintf("reading %d bytes returned %d bytes (%v) that differ from the file's (%d bytes; first difference at +%d)", st.n, k, e1, m, firstDiff(got[:k], want[:m]))
					}
				}); pm != "" {
					bad = "panic: " + pm
				}
				if bad != "" {
					report("c10|readseek|squashfs|many-files|wrong-bytes", fmt.Sprintf("%s (%d bytes, step %d): %s", p, len(data), si, bad), map[string]any{"file": p, "no_fragments": nofrag, "step": si})
					break
				}
			}
			f.Close()
		}
	}
	return
}
