package checks

import (
	"bytes"
	"encoding/json"
	"errors"
	"fmt"
	"io"

	"github.com/diskfs/go-diskfs/disk"
	"github.com/diskfs/go-diskfs/partition"
	"github.com/diskfs/go-diskfs/partition/gpt"
	"github.com/diskfs/go-diskfs/partition/mbr"
	"github.com/diskfs/go-diskfs/partition/part"
	dsync "github.com/diskfs/go-diskfs/sync"

	"verifmc/ev"
	"verifmc/memdev"
)

func init() {
	register("C13", "exploration", C13)
	Replayers["C13"] = func(raw []byte) string {
		var c partioCase
		if err := json.Unmarshal(raw, &c); err != nil {
			return "bad case"
		}
		sig, msg, _ := runPartioCase(&c)
		if sig == "" {
			return "holds"
		}
		return sig + ": " + msg
	}
}

type partioCase struct {
	Table   string `json:"table"` // gpt | mbr
	Start   uint64 `json:"start_sector"`
	Sectors uint64 `json:"size_sectors"`
	LSS     int    `json:"lss"`
	PSS     int    `json:"pss"`
	LenMode string `json:"reader_len"` // size-1 size size+1 zero
	Chunk   string `json:"chunk"`      // whole one seven 513 dataeof
	Op      string `json:"op"`         // write | copy
	// Via: "" = the table is written, then read back from the disk by GetPartitionTable (partitions as decoded);
	// "inmem" = Disk.Partition(table): the Disk keeps the caller's own table object; "unordered" = as inmem with a second
	// partition (index 2) listed BEFORE the partition under test (index 1) in the table's slice; "inplace" = the caller's table
	// object is edited in place (partitions renumbered) after the Disk has already served look-ups from it
	Via    string `json:"via,omitempty"`
	CopyTo string `json:"copy_target,omitempty"` // same bigger smaller
}

// sparseByte: position-dependent content that is zero almost everywhere on huge ranges (so that the sparse
// device stays small) but dense near both ends and around every 64 MiB boundary.
func sparseByte(off, total int64) byte {
	if total <= 1<<21 && total >= 3000 && off >= total/3 && off < total/3+1100 {
		return 0 // a run of zeroes that is longer than any of the reader's pieces (small partitions have no other zero stretch)
	}
	if total <= 1<<20 || off < 64<<10 || off >= total-(64<<10) || off%(64<<20) < 32 {
		return byte(1 + (off*7+off/253)%251)
	}
	return 0
}

type patReader struct {
	pos, n int64
	total  int64 // content is defined relative to this size
	chunk  string
}

func (r *patReader) Read(p []byte) (int, error) {
	if r.pos >= r.n {
		return 0, io.EOF
	}
	k := len(p)
	switch r.chunk {
	case "one":
		k = 1
	case "seven":
		k = 7
	case "513":
		k = 513
	}
	if k > len(p) {
		k = len(p)
	}
	if int64(k) > r.n-r.pos {
		k = int(r.n - r.pos)
	}
	o := r.pos
	if r.total > 1<<20 && o >= 64<<10 && o+int64(k) <= r.total-(64<<10) && o%(64<<20) >= 32 && o%(64<<20)+int64(k) <= 64<<20 {
		clear(p[:k]) // entirely inside a zero stretch
	} else {
		for i := 0; i < k; i++ {
			p[i] = sparseByte(o+int64(i), r.total)
		}
	}
	r.pos += int64(k)
	if r.chunk == "dataeof" && r.pos >= r.n {
		return k, io.EOF
	}
	return k, nil
}

func expectBytes(off, n, total int64) []byte {
	b := make([]byte, n)
	for i := range b {
		b[i] = sparseByte(off+int64(i), total)
	}
	return b
}

func buildPartDisk(c *partioCase, extra uint64) (*memdev.Dev, *disk.Disk, int64, error) {
	lss := int64(c.LSS)
	sectors := c.Start + c.Sectors + extra + 4096/uint64(c.LSS)*40
	size := int64(sectors) * lss
	d := memdev.New(size)
	var tbl partition.Table
	if c.Table == "gpt" {
		t := &gpt.Table{LogicalSectorSize: c.LSS, PhysicalSectorSize: c.PSS, ProtectiveMBR: true, GUID: fixedDiskGUID}
		if c.Via == "gaps" {
			// used slots 1, 3, 4 (slot 2 empty); the partition under test is number 3, read back from the disk
			t.Partitions = append(t.Partitions,
				&gpt.Partition{Index: 1, Start: c.Start + c.Sectors + 3, End: c.Start + c.Sectors + 3 + c.Sectors - 1, Type: gpt.LinuxFilesystem, Name: "p1", GUID: partGUID(2)},
				&gpt.Partition{Index: 4, Start: c.Start + 2*(c.Sectors+3), End: c.Start + 2*(c.Sectors+3) + c.Sectors - 1, Type: gpt.LinuxFilesystem, Name: "p4", GUID: partGUID(4)},
				&gpt.Partition{Index: 3, Start: c.Start, End: c.Start + c.Sectors - 1, Type: gpt.LinuxFilesystem, Name: "p3", GUID: partGUID(1)})
			tbl = t
		} else if c.Via == "unordered" {
			t.Partitions = append(t.Partitions, &gpt.Partition{Index: 2, Start: c.Start + c.Sectors + 3, End: c.Start + c.Sectors + 3 + c.Sectors - 1, Type: gpt.LinuxFilesystem, Name: "p2", GUID: partGUID(2)})
		}
		if c.Via != "gaps" {
			t.Partitions = append(t.Partitions, &gpt.Partition{Index: 1, Start: c.Start, End: c.Start + c.Sectors - 1, Type: gpt.LinuxFilesystem, Name: "p1", GUID: partGUID(1)})
		}
		if c.Op == "copy" {
			ts := c.Sectors
			switch c.CopyTo {
			case "bigger":
				ts++
			case "smaller":
				ts--
			}
			if ts == 0 {
				return nil, nil, 0, errors.New("n/a")
			}
			t.Partitions = append(t.Partitions, &gpt.Partition{Index: 2, Start: c.Start + c.Sectors + 3, End: c.Start + c.Sectors + 3 + ts - 1, Type: gpt.LinuxFilesystem, Name: "p2", GUID: partGUID(2)})
		}
		tbl = t
	} else {
		// start and size are 32-bit fields each: a partition may end on the last addressable sector (start+size = 2^32);
		// a second partition behind it (copy target, other variants) cannot exist
		if c.Start+c.Sectors > 1<<32 || (extra > 0 && c.Start+c.Sectors+extra > 1<<32-1) {
			return nil, nil, 0, errors.New("n/a")
		}
		t := &mbr.Table{LogicalSectorSize: c.LSS, PhysicalSectorSize: c.PSS}
		t.Partitions = append(t.Partitions, &mbr.Partition{Index: 1, Type: mbr.Linux, Start: uint32(c.Start), Size: uint32(c.Sectors)})
		if c.Op == "copy" {
			ts := c.Sectors
			switch c.CopyTo {
			case "bigger":
				ts++
			case "smaller":
				ts--
			}
			if ts == 0 {
				return nil, nil, 0, errors.New("n/a")
			}
			t.Partitions = append(t.Partitions, &mbr.Partition{Index: 2, Type: mbr.Linux, Start: uint32(c.Start + c.Sectors + 3), Size: uint32(ts)})
		}
		tbl = t
	}
	if c.Via == "inplace" {
		// the caller's table first holds another partition as number 1 and the partition under test as number 2; after both
		// have been looked up once, the caller edits the SAME table object in place - the other partition is dropped, the
		// one under test becomes number 1 - and hands it to Disk.Partition again
		dk := &disk.Disk{Backend: be(d, false), Size: size, LogicalBlocksize: lss, PhysicalBlocksize: int64(c.PSS), DefaultBlocks: true}
		os, oz := c.Start+c.Sectors+3, c.Sectors+2
		if c.Table == "gpt" {
			t := tbl.(*gpt.Table)
			under := t.Partitions[len(t.Partitions)-1]
			under.Index = 2
			t.Partitions = []*gpt.Partition{{Index: 1, Start: os, End: os + oz - 1, Type: gpt.LinuxFilesystem, Name: "other", GUID: partGUID(9)}, under}
			if err := dk.Partition(t); err != nil {
				return nil, nil, 0, fmt.Errorf("table refused: %w", err)
			}
			_, _ = dk.GetPartition(1)
			_, _ = dk.GetPartition(2)
			under.Index = 1
			t.Partitions = []*gpt.Partition{under}
			if err := dk.Partition(t); err != nil {
				return nil, nil, 0, fmt.Errorf("table refused: %w", err)
			}
		} else {
			t := tbl.(*mbr.Table)
			under := t.Partitions[0]
			under.Index = 2
			t.Partitions = []*mbr.Partition{{Index: 1, Type: mbr.Linux, Start: uint32(os), Size: uint32(oz)}, under}
			if err := dk.Partition(t); err != nil {
				return nil, nil, 0, fmt.Errorf("table refused: %w", err)
			}
			_, _ = dk.GetPartition(1)
			_, _ = dk.GetPartition(2)
			under.Index = 1
			t.Partitions = []*mbr.Partition{under}
			if err := dk.Partition(t); err != nil {
				return nil, nil, 0, fmt.Errorf("table refused: %w", err)
			}
		}
		return d, dk, size, nil
	}
	if c.Via == "repartition" || c.Via == "replace-entry" {
		// partition 1 first lies somewhere else (and is looked up once); then the disk is partitioned again with partition 1 where
		// the case wants it - with a NEW table object ("repartition") or with the same table object whose entry was replaced by
		// a new partition object ("replace-entry", same number of entries)
		dk := &disk.Disk{Backend: be(d, false), Size: size, LogicalBlocksize: lss, PhysicalBlocksize: int64(c.PSS), DefaultBlocks: true}
		os, oz := c.Start+c.Sectors+3, c.Sectors+2
		if c.Table == "gpt" {
			t := tbl.(*gpt.Table)
			under := t.Partitions[len(t.Partitions)-1]
			first := &gpt.Table{LogicalSectorSize: c.LSS, PhysicalSectorSize: c.PSS, ProtectiveMBR: true, GUID: fixedDiskGUID,
				Partitions: []*gpt.Partition{{Index: 1, Start: os, End: os + oz - 1, Type: gpt.LinuxFilesystem, Name: "elsewhere", GUID: partGUID(9)}}}
			if err := dk.Partition(first); err != nil {
				return nil, nil, 0, fmt.Errorf("table refused: %w", err)
			}
			_, _ = dk.GetPartition(1)
			_ = first.GetPartitions()
			if c.Via == "replace-entry" {
				first.Partitions[0] = under
				t = first
			}
			if err := dk.Partition(t); err != nil {
				return nil, nil, 0, fmt.Errorf("table refused: %w", err)
			}
		} else {
			t := tbl.(*mbr.Table)
			under := t.Partitions[0]
			first := &mbr.Table{LogicalSectorSize: c.LSS, PhysicalSectorSize: c.PSS, Partitions: []*mbr.Partition{{Index: 1, Type: mbr.Linux, Start: uint32(os), Size: uint32(oz)}}}
			if err := dk.Partition(first); err != nil {
				return nil, nil, 0, fmt.Errorf("table refused: %w", err)
			}
			_, _ = dk.GetPartition(1)
			_ = first.GetPartitions()
			if c.Via == "replace-entry" {
				first.Partitions[0] = under
				t = first
			}
			if err := dk.Partition(t); err != nil {
				return nil, nil, 0, fmt.Errorf("table refused: %w", err)
			}
		}
		return d, dk, size, nil
	}
	if c.Via != "" && c.Via != "gaps" {
		dk := &disk.Disk{Backend: be(d, false), Size: size, LogicalBlocksize: lss, PhysicalBlocksize: int64(c.PSS), DefaultBlocks: true}
		if err := dk.Partition(tbl); err != nil {
			return nil, nil, 0, fmt.Errorf("table refused: %w", err)
		}
		return d, dk, size, nil
	}
	if err := tbl.Write(d, size); err != nil {
		return nil, nil, 0, fmt.Errorf("table refused: %w", err)
	}
	dk := &disk.Disk{Backend: be(d, false), Size: size, LogicalBlocksize: lss, PhysicalBlocksize: int64(c.PSS), DefaultBlocks: true}
	if _, err := dk.GetPartitionTable(); err != nil {
		return nil, nil, 0, fmt.Errorf("table unreadable: %w", err)
	}
	return d, dk, size, nil
}

func runPartioCase(c *partioCase) (sig, msg, outcome string) {
	extra := uint64(0)
	if c.Op == "copy" || c.Via == "unordered" || c.Via == "inplace" || c.Via == "repartition" || c.Via == "replace-entry" {
		extra = c.Sectors + 12
	}
	target := 1
	if c.Via == "gaps" {
		extra = 2*c.Sectors + 16
		target = 3
	}
	d, dk, _, err := buildPartDisk(c, extra)
	if err != nil {
		if err.Error() == "n/a" {
			return "", "", "n/a"
		}
		return "", "", "setup:" + errClass(err)
	}
	lss := int64(c.LSS)
	pstart, psize := int64(c.Start)*lss, int64(c.Sectors)*lss
	tag := fmt.Sprintf("%s|lss=%d|pss=%d", c.Table, c.LSS, c.PSS)
	if c.Via != "" {
		tag += "|via=" + c.Via
	}
	big := ""
	if pstart >= 1<<32 || psize >= 1<<32 {
		big = "|beyond-4GiB"
	}
	if c.Op == "copy" {
		// fill the source partition directly, then copy
		src := &patReader{n: psize, total: psize, chunk: "whole"}
		buf := make([]byte, 1<<16)
		for off := int64(0); off < psize; {
			k, _ := src.Read(buf)
			if k == 0 {
				break
			}
			d.Poke(buf[:k], pstart+off)
			off += int64(k)
		}
		tstart := int64(c.Start+c.Sectors+3) * lss
		tsize := psize
		switch c.CopyTo {
		case "bigger":
			tsize += lss
		case "smaller":
			tsize -= lss
		}
		d.Allowed = []memdev.Range{{Lo: tstart, Hi: tstart + tsize}}
		var cerr error
		if pm := guard(func() { cerr = dsync.CopyPartitionRaw(dk, 1, 2) }); pm != "" {
			return "copy|" + pm, pm, "panic"
		}
		if len(d.Outside) > 0 {
			o := d.Outside[0]
			return "copy|write-outside-target|" + tag + big, fmt.Sprintf("CopyPartitionRaw wrote %d bytes at %d, target partition is [%d,%d)", o.Len, o.Off, tstart, tstart+tsize), "outside"
		}
		if c.CopyTo == "smaller" {
			if cerr == nil {
				return "copy|too-small-target-accepted|" + tag, "copy into a smaller partition reported success", "bad-accept"
			}
			return "", "", "copy-refused"
		}
		if cerr != nil {
			return "copy|failed|" + tag + big + "|" + firstWords(cerr.Error()), "CopyPartitionRaw failed: " + cerr.Error(), "copy-error"
		}
		// leading bytes of the target equal the source
		for off := int64(0); off < psize; off += 1 << 16 {
			n := int64(1 << 16)
			if off+n > psize {
				n = psize - off
			}
			if !bytes.Equal(d.Peek(tstart+off, int(n)), expectBytes(off, n, psize)) {
				return "copy|target-differs|" + tag + big, fmt.Sprintf("after CopyPartitionRaw the target differs from the source near offset %d", off), "mismatch"
			}
		}
		return "", "", "copy-ok"
	}
	// ---- WritePartitionContents
	n := psize
	switch c.LenMode {
	case "size-1":
		n--
	case "size+1":
		n++
	case "zero":
		n = 0
	}
	// what the partition held before is not zero: whatever the reader supplies - zeroes included - must replace it
	junk := bytes.Repeat([]byte{0xA5, 0x5A, 0xC3}, 1<<16/3+1)[:1<<16]
	if psize <= 8<<20 {
		for off := int64(0); off < psize; off += int64(len(junk)) {
			k := int64(len(junk))
			if off+k > psize {
				k = psize - off
			}
			d.Poke(junk[:k], pstart+off)
		}
	} else {
		for _, off := range []int64{0, 1<<20 + 12345, 64<<20 - 4096, 64<<20 + 70000, psize/2 + 777, psize - int64(len(junk))} {
			if off >= 0 && off+int64(len(junk)) <= psize {
				d.Poke(junk, pstart+off)
			}
		}
	}
	before := d.Clone()
	d.Allowed = []memdev.Range{{Lo: pstart, Hi: pstart + psize}}
	rd := &patReader{n: n, total: psize + 1, chunk: c.Chunk}
	var written int64
	var werr error
	if pm := guard(func() { written, werr = dk.WritePartitionContents(target, rd) }); pm != "" {
		return "write|" + pm, pm, "panic"
	}
	if len(d.Outside) > 0 {
		o := d.Outside[0]
		return "write|write-outside-partition|" + tag + big + "|len=" + c.LenMode, fmt.Sprintf("WritePartitionContents wrote %d bytes at device offset %d; the partition is [%d,%d)", o.Len, o.Off, pstart, pstart+psize), "outside"
	}
	if off := d.DiffOutside(before, pstart, pstart+psize); off >= 0 {
		return "write|bytes-changed-outside|" + tag + big, fmt.Sprintf("byte at device offset %d changed; the partition is [%d,%d)", off, pstart, pstart+psize), "outside"
	}
	if n == psize {
		if werr != nil {
			return "write|exact-size-refused|" + tag + big + "|chunk=" + c.Chunk, fmt.Sprintf("exactly %d bytes supplied for a %d-byte partition but: %v", n, psize, werr), "bad-refuse"
		}
		if written != psize {
			return "write|count|" + tag + big, fmt.Sprintf("reported %d bytes written, partition has %d", written, psize), "count"
		}
	} else {
		if werr == nil {
			return "write|wrong-size-accepted|" + tag + "|len=" + c.LenMode, fmt.Sprintf("%d bytes supplied for a %d-byte partition and the call succeeded", n, psize), "bad-accept"
		}
		var ipw *part.IncompletePartitionWriteError
		if n < psize && !errors.As(werr, &ipw) {
			return "write|short-input-error-type|" + tag, "too few bytes: error is not IncompletePartitionWriteError: " + werr.Error(), "errtype"
		}
	}
	// stored bytes at the partition's own offset
	stored := n
	if stored > psize {
		stored = 0 // nothing is promised about partial contents after a refusal
	}
	for off := int64(0); off < stored; off += 1 << 16 {
		k := int64(1 << 16)
		if off+k > stored {
			k = stored - off
		}
		if !bytes.Equal(d.Peek(pstart+off, int(k)), expectBytes(off, k, psize+1)) {
			return "write|stored-bytes-differ|" + tag + big + "|chunk=" + c.Chunk, fmt.Sprintf("bytes stored in the partition differ from the reader's near partition offset %d", off), "mismatch"
		}
	}
	// ---- ReadPartitionContents returns exactly the partition's bytes
	d.Allowed = nil
	cw := &countWriter{dev: d, base: pstart, limit: psize}
	var got int64
	var rerr error
	if pm := guard(func() { got, rerr = dk.ReadPartitionContents(target, cw) }); pm != "" {
		return "read|" + pm, pm, "panic"
	}
	if rerr != nil {
		return "read|error|" + tag + big, rerr.Error(), "readerr"
	}
	if cw.n != psize || got != psize {
		return "read|count|" + tag + big, fmt.Sprintf("ReadPartitionContents delivered %d bytes (returned %d) for a %d-byte partition", cw.n, got, psize), "count"
	}
	if cw.bad >= 0 {
		return "read|content|" + tag + big, fmt.Sprintf("ReadPartitionContents byte %d differs from the device", cw.bad), "mismatch"
	}
	if n == psize {
		return "", "", "write-ok"
	}
	return "", "", "write-refused:" + c.LenMode
}

// countWriter compares what it is given with the device contents of the partition.
type countWriter struct {
	dev   *memdev.Dev
	base  int64
	limit int64
	n     int64
	bad   int64
	init  bool
}

func (w *countWriter) Write(p []byte) (int, error) {
	if !w.init {
		w.bad = -1
		w.init = true
	}
	if w.bad < 0 {
		k := int64(len(p))
		if w.n+k <= w.limit+8192 {
			if !bytes.Equal(w.dev.Peek(w.base+w.n, int(k)), p) {
				w.bad = w.n
			}
		}
	}
	w.n += int64(len(p))
	return len(p), nil
}

func enumC13(quick bool) []partioCase {
	var cs []partioCase
	for _, tb := range []string{"gpt", "mbr"} {
		for _, ss := range [][2]int{{512, 512}, {512, 4096}, {4096, 4096}} {
			starts := []uint64{34, 2048, 1<<23 + 1}
			if tb == "mbr" {
				// (the last one: start + size reaches 2^32 sectors for the sizes 1, 3 and 8 below - 2^32-8+8 - or ends just below)
				starts = []uint64{1, 2048, 1<<23 + 1, 1<<32 - 8}
			}
			if tb == "gpt" {
				starts = append(starts, 1<<32-9)
			}
			if ss[0] == 4096 {
				starts[0] = 6
			}
			for _, st := range starts {
				sizes := []uint64{1, 3, 8, 2049}
				if !quick {
					sizes = append(sizes, 1<<23+8)
				}
				for _, sz := range sizes {
					huge := sz > 1<<20
					for _, lm := range []string{"size", "size-1", "size+1", "zero"} {
						for _, ch := range []string{"whole", "one", "seven", "513", "dataeof"} {
							if huge && (ch == "one" || ch == "seven" || lm == "zero") {
								continue
							}
							if quick && sz == 2049 && (ch == "one" || ch == "seven") && lm != "size" {
								continue
							}
							cs = append(cs, partioCase{Table: tb, Start: st, Sectors: sz, LSS: ss[0], PSS: ss[1], LenMode: lm, Chunk: ch, Op: "write"})
						}
					}
					if !huge {
						// the Disk keeps the caller's own table object (Disk.Partition), also with the slice out of index order
						for _, via := range []string{"inmem", "unordered", "gaps", "inplace", "repartition", "replace-entry"} {
							if (via == "unordered" || via == "gaps") && tb == "mbr" {
								continue // MBR slots are positional
							}
							for _, lm := range []string{"size", "size+1"} {
								cs = append(cs, partioCase{Table: tb, Start: st, Sectors: sz, LSS: ss[0], PSS: ss[1], LenMode: lm, Chunk: "513", Op: "write", Via: via})
							}
						}
						for _, ct := range []string{"same", "bigger", "smaller"} {
							cs = append(cs, partioCase{Table: tb, Start: st, Sectors: sz, LSS: ss[0], PSS: ss[1], Op: "copy", CopyTo: ct})
						}
					}
				}
			}
		}
	}
	return cs
}

func C13(r *ev.Run) {
	cases := enumC13(r.Quick())
	outcomes := newDistinct()
	nontrivial := newDistinct()
	done := parallel(len(cases), r.OutOfTime, func(i int) {
		c := &cases[i]
		sig, msg, out := runPartioCase(c)
		outcomes.add(out)
		if out != "n/a" && out[:min(5, len(out))] != "setup" {
			b, _ := json.Marshal(c)
			nontrivial.add(string(b))
		}
		if sig != "" {
			r.Report("c13|"+sig, msg, c)
		}
		if i%(len(cases)/6+1) == 0 {
			r.Sample(c)
		}
	})
	r.Set("evaluations", int64(done))
	r.Set("distinct_nontrivial", int64(nontrivial.n()))
	r.Set("distinct_outcomes", outcomes.snapshot())
	r.Set("rule", "full cross product: table {GPT,MBR} x (logical,physical) sector size {(512,512),(512,4096),(4096,4096)} x start sector {first usable, 2048, 2^23+1 (> 4 GiB at 512 B), 2^32-9 (GPT)} x size in sectors {1,3,8,2049, thorough: 2^23+8 (>= 4 GiB)} x reader length {size, size-1, size+1, 0} x reader chunking {whole buffer, 1 byte, 7 bytes, 513 bytes, data together with io.EOF}; plus CopyPartitionRaw into a target of the same size, one sector larger, one sector smaller. Executed on a sparse device with a write monitor on the partition range; non-trivial = distinct cases in which the table was accepted and the stream was actually driven")
	r.Set("exhaustive", done == len(cases))
	r.Assume("position-dependent content is sparse on multi-GiB partitions (dense near both ends and at every 64 MiB boundary) so that a 4 GiB stream costs time, not memory")
}
