package checks

import (
	"bytes"
	"encoding/json"
	"fmt"
	"os"
	"strings"

	"github.com/diskfs/go-diskfs/disk"
	"github.com/diskfs/go-diskfs/filesystem"
	"github.com/diskfs/go-diskfs/filesystem/iso9660"
	"github.com/diskfs/go-diskfs/filesystem/squashfs"
	"github.com/diskfs/go-diskfs/partition"
	"github.com/diskfs/go-diskfs/partition/gpt"
	"github.com/diskfs/go-diskfs/partition/mbr"

	"verifmc/ev"
	"verifmc/memdev"
)

func init() {
	register("C12", "exploration", C12)
	Replayers["C12"] = func(raw []byte) string {
		var c detCase
		if err := json.Unmarshal(raw, &c); err != nil {
			return "bad case"
		}
		sig, msg, _ := runDetCase(&c)
		if sig == "" {
			return "holds"
		}
		return sig + ": " + msg
	}
}

type detCase struct {
	Type      string `json:"type"` // fat12 fat16 fat32 ext4 iso squashfs blank
	Size      int64  `json:"size"`
	Placement string `json:"placement"` // whole gpt1 gpt3 mbr1
	Previous  string `json:"previous"`  // "", or a type left behind in the same range
	Label     string `json:"label"`
	LSS       int64  `json:"lss,omitempty"` // logical sector size of the disk (0 = the type's usual one)
}

var fsTypes = map[string]filesystem.Type{"fat12": filesystem.TypeFat12, "fat16": filesystem.TypeFat16, "fat32": filesystem.TypeFat32, "ext4": filesystem.TypeExt4, "iso": filesystem.TypeISO9660, "squashfs": filesystem.TypeSquashfs}

func typeName(t filesystem.Type) string {
	for k, v := range fsTypes {
		if v == t {
			return k
		}
	}
	return fmt.Sprint(int(t))
}

func detLSS(typ string) int64 {
	switch typ {
	case "squashfs":
		return 4096
	}
	return 512
}

// openDetDisk builds a disk.Disk over the device with the sector sizes the type needs at creation time.
func openDetDisk(d *memdev.Dev, typ string, ro bool) (*disk.Disk, error) {
	return openDetDiskLSS(d, detLSS(typ), ro)
}

func openDetDiskLSS(d *memdev.Dev, lss int64, ro bool) (*disk.Disk, error) {
	dk := &disk.Disk{Backend: be(d, ro), Size: d.Size(), LogicalBlocksize: lss, PhysicalBlocksize: lss, DefaultBlocks: true}
	_, _ = dk.GetPartitionTable()
	return dk, nil
}

func createFS(dk *disk.Disk, typ string, part int, label string) (filesystem.FileSystem, error) {
	spec := disk.FilesystemSpec{Partition: part, FSType: fsTypes[typ], VolumeLabel: label}
	saved := dk.LogicalBlocksize
	if typ == "iso" {
		dk.LogicalBlocksize = 2048
		defer func() { dk.LogicalBlocksize = saved }()
	}
	fs, err := dk.CreateFilesystem(spec)
	if err != nil {
		return nil, err
	}
	probe := []byte("probe-" + typ)
	switch typ {
	case "iso", "squashfs":
		f, err := fs.OpenFile("PROBE.TXT", os.O_CREATE|os.O_RDWR)
		if err != nil {
			return nil, fmt.Errorf("workspace: %w", err)
		}
		_, _ = f.Write(probe)
		f.Close()
		if typ == "iso" {
			ifs := fs.(*iso9660.FileSystem)
			defer os.RemoveAll(ifs.Workspace())
			return fs, ifs.Finalize(iso9660.FinalizeOptions{RockRidge: true, VolumeIdentifier: label})
		}
		sfs := fs.(*squashfs.FileSystem)
		defer os.RemoveAll(sfs.Workspace())
		return fs, sfs.Finalize(squashfs.FinalizeOptions{})
	}
	f, err := fs.OpenFile("PROBE.TXT", os.O_CREATE|os.O_RDWR)
	if err != nil {
		return nil, fmt.Errorf("probe file: %w", err)
	}
	if _, err := f.Write(probe); err != nil {
		return nil, fmt.Errorf("probe write: %w", err)
	}
	f.Close()
	return fs, nil
}

func runDetCase(c *detCase) (sig, msg, outcome string) {
	lss := detLSS(c.Type)
	if c.Type == "blank" {
		lss = 512
	}
	if c.LSS != 0 {
		lss = c.LSS
	}
	decoy := ""
	decoyPart := 3
	psize := (c.Size + lss - 1) / lss * lss
	var dev *memdev.Dev
	part := 0
	pstart := int64(0)
	var callerTable partition.Table // the creating session keeps the caller's own table object, as Disk.Partition does
	switch c.Placement {
	case "whole":
		dev = memdev.New(psize)
	default:
		pstart = 1 << 20
		if c.Placement == "gpt3" {
			pstart = 2 << 20
		}
		if c.Placement == "gpt134" {
			pstart = 4 << 20
		}
		if c.Placement == "gptrepart" {
			pstart = 3 << 20
		}
		total := pstart + psize + 1<<20
		dev = memdev.New(total)
		var err error
		if c.Placement == "mbr1" {
			part = 1
			t := &mbr.Table{LogicalSectorSize: int(lss), PhysicalSectorSize: int(lss), Partitions: []*mbr.Partition{{Index: 1, Type: mbr.Linux, Start: uint32(pstart / lss), Size: uint32(psize / lss)}}}
			err = t.Write(dev, total)
			callerTable = t
		} else {
			t := &gpt.Table{LogicalSectorSize: int(lss), PhysicalSectorSize: int(lss), ProtectiveMBR: true, GUID: fixedDiskGUID}
			if c.Placement == "gpt3" {
				part = 3
				t.Partitions = append(t.Partitions,
					&gpt.Partition{Index: 1, Start: uint64((1 << 20) / lss), End: uint64((1<<20+256<<10)/lss) - 1, Type: gpt.LinuxFilesystem, Name: "one", GUID: partGUID(1)},
					&gpt.Partition{Index: 2, Start: uint64((1<<20 + 256<<10) / lss), End: uint64((1<<20+512<<10)/lss) - 1, Type: gpt.LinuxFilesystem, Name: "two", GUID: partGUID(2)})
			} else if c.Placement == "gpt134" {
				// used slots 1, 3 and 4 (slot 2 empty): the target is partition 4, partition 3 holds a decoy of another type
				part = 4
				decoy = "fat12"
				if c.Type == "fat12" || lss != 512 {
					decoy = "fat32"
				}
				t.Partitions = append(t.Partitions,
					&gpt.Partition{Index: 1, Start: uint64((1 << 20) / lss), End: uint64((1<<20+256<<10)/lss) - 1, Type: gpt.LinuxFilesystem, Name: "one", GUID: partGUID(1)},
					&gpt.Partition{Index: 3, Start: uint64((2 << 20) / lss), End: uint64((3<<20)/lss) - 1, Type: gpt.LinuxFilesystem, Name: "three", GUID: partGUID(3)})
			} else if c.Placement == "gptrepart" {
				// the disk is first partitioned with ONE partition (which receives a filesystem of another type); a later session
				// opens the disk, reads the table, adds the target partition as number 2 and writes the table back
				part = 2
				decoyPart = 1
				decoy = "fat12"
				if c.Type == "fat12" || lss != 512 {
					decoy = "fat32"
				}
				t.Partitions = append(t.Partitions, &gpt.Partition{Index: 1, Start: uint64((1 << 20) / lss), End: uint64((2<<20)/lss) - 1, Type: gpt.LinuxFilesystem, Name: "one", GUID: partGUID(1)})
			} else {
				part = 1
			}
			if c.Placement != "gptrepart" {
				t.Partitions = append(t.Partitions, &gpt.Partition{Index: part, Start: uint64(pstart / lss), End: uint64((pstart+psize)/lss) - 1, Type: gpt.LinuxFilesystem, Name: "target", GUID: partGUID(9)})
			}
			err = t.Write(dev, total)
			callerTable = t
		}
		if err != nil {
			return "", "", "setup:" + errShape(err.Error())
		}
	}
	tag := c.Type
	if c.Previous != "" {
		tag += "|over-" + c.Previous
	}
	// previous occupant of the same range
	if c.Previous == "dirnoise" {
		// stale bytes that look like FAT directory slots (a volume label and a file) everywhere in the range:
		// whatever the new filesystem does not initialise itself shows up as ghost entries or a ghost label
		unit := make([]byte, 64)
		copy(unit[0:11], "OLDVOLUME  ")
		unit[11] = 0x08
		copy(unit[32:43], "GHOST   TXT")
		unit[32+11] = 0x20
		unit[32+26] = 3
		unit[32+28] = 5
		buf := bytes.Repeat(unit, 1024)
		for off := int64(0); off < psize; off += int64(len(buf)) {
			n := int64(len(buf))
			if off+n > psize {
				n = psize - off
			}
			dev.Poke(buf[:n], pstart+off)
		}
	} else if c.Previous != "" {
		pd, _ := openDetDisk(dev, c.Previous, false)
		if c.Previous != c.Type && detLSS(c.Previous) != lss && c.Placement != "whole" {
			return "", "", "n/a" // the partition table was written for another sector size
		}
		var perr error
		if pm := guard(func() { _, perr = createFS(pd, c.Previous, part, "OLDVOLUME") }); pm != "" || perr != nil {
			return "", "", "previous-refused"
		}
	}
	if c.Type == "blank" {
		dk, _ := openDetDisk(dev, "fat32", true)
		var fs filesystem.FileSystem
		var err error
		if pm := guard(func() { fs, err = dk.GetFilesystem(part) }); pm != "" {
			return "blank|" + pm, pm, "panic"
		}
		if err == nil {
			return "blank|detected-as-" + typeName(fs.Type()), fmt.Sprintf("a blank range (%s) is reported as %s", c.Placement, typeName(fs.Type())), "bad"
		}
		return "", "", "blank-ok"
	}
	dk, _ := openDetDiskLSS(dev, lss, false)
	if callerTable != nil && c.Placement == "gpt134" {
		dk.Table = callerTable
	}
	if decoy != "" {
		var derr error
		if pm := guard(func() { _, derr = createFS(dk, decoy, decoyPart, "DECOY") }); pm != "" || derr != nil {
			return "", "", "n/a"
		}
	}
	if c.Placement == "gptrepart" {
		// a new session on the same bytes: read the table, add partition 2, write it back through Disk.Partition
		dk, _ = openDetDiskLSS(dev, lss, false)
		tb, terr := dk.GetPartitionTable()
		g, ok := tb.(*gpt.Table)
		if terr != nil || !ok {
			return "", "", "n/a"
		}
		g.Partitions = append(g.Partitions, &gpt.Partition{Index: 2, Start: uint64(pstart / lss), End: uint64((pstart+psize)/lss) - 1, Type: gpt.LinuxFilesystem, Name: "target", GUID: partGUID(9)})
		var perr error
		if pm := guard(func() { perr = dk.Partition(g) }); pm != "" {
			return "repartition|" + pm, "Disk.Partition with a table read from the disk and extended panicked: " + pm, "panic"
		}
		if perr != nil {
			return "", "", "refused:" + errShape(perr.Error())
		}
	}
	var cerr error
	if pm := guard(func() { _, cerr = createFS(dk, c.Type, part, c.Label) }); pm != "" {
		return "create|" + tag + "|" + pm, "CreateFilesystem panicked: " + pm, "panic"
	}
	if cerr != nil {
		return "", "", "refused:" + errShape(cerr.Error())
	}
	// fresh disk on the same bytes, same open options
	rd := dev.Clone()
	fresh, _ := openDetDiskLSS(rd, lss, true)
	if c.Placement != "whole" {
		tb, err := fresh.GetPartitionTable()
		if err != nil {
			return "table|" + c.Placement + "|unreadable", "partition table no longer readable after CreateFilesystem: " + err.Error(), "bad"
		}
		want := "gpt"
		if c.Placement == "mbr1" {
			want = "mbr"
		}
		if tb.Type() != want {
			return "table|" + c.Placement + "|reported-as-" + tb.Type(), fmt.Sprintf("a %s disk is reported as %s", want, tb.Type()), "bad"
		}
	}
	if decoy != "" {
		var dfs filesystem.FileSystem
		var derr error
		if pm := guard(func() { dfs, derr = fresh.GetFilesystem(decoyPart) }); pm != "" {
			return "detect|" + tag + "|decoy|" + pm, pm, "panic"
		}
		if derr != nil || dfs.Type() != fsTypes[decoy] {
			return "detect|" + tag + "|neighbour-partition", fmt.Sprintf("partition %d (%s) holds %s but is returned as %v (%v)", decoyPart, c.Placement, decoy, dfs, derr), "bad"
		}
	}
	var fs filesystem.FileSystem
	var gerr error
	if pm := guard(func() { fs, gerr = fresh.GetFilesystem(part) }); pm != "" {
		return "detect|" + tag + "|" + pm, pm, "panic"
	}
	if gerr != nil {
		return "detect|" + tag + "|unknown", fmt.Sprintf("a %s filesystem of %d bytes (%s) created with CreateFilesystem is not recognised: %v", c.Type, c.Size, c.Placement, gerr), "bad"
	}
	if fs.Type() != fsTypes[c.Type] {
		return "detect|" + tag + "|as-" + typeName(fs.Type()), fmt.Sprintf("a %s filesystem of %d bytes (%s) is returned as %s", c.Type, c.Size, c.Placement, typeName(fs.Type())), "bad"
	}
	wantLabel := c.Label
	got := strings.TrimRight(strings.TrimSpace(fs.Label()), "\x00")
	if c.Type == "squashfs" {
		wantLabel = "" // squashfs has no label
	}
	if wantLabel == "" && (strings.HasPrefix(c.Type, "fat")) {
		wantLabel = "NO NAME"
	}
	if wantLabel == "" && (c.Type == "iso" || c.Type == "ext4") {
		wantLabel = got // default identifier
	}
	if got != wantLabel {
		return "label|" + tag, fmt.Sprintf("label %q read back, %q given", got, wantLabel), "bad"
	}
	var pb []byte
	var rerr error
	if pm := guard(func() { pb, rerr = fs.ReadFile("PROBE.TXT") }); pm != "" {
		return "contents|" + tag + "|" + pm, pm, "panic"
	}
	if rerr != nil || !bytes.Equal(pb, []byte("probe-"+c.Type)) {
		return "contents|" + tag, fmt.Sprintf("probe file reads back as %q (%v)", pb, rerr), "bad"
	}
	// nothing but what was put there
	if ents, err := fs.ReadDir("."); err == nil {
		for _, e := range ents {
			if n := e.Name(); !strings.EqualFold(n, "PROBE.TXT") && n != "lost+found" {
				return "contents|" + tag + "|ghost-entry", fmt.Sprintf("the new filesystem lists %q, which was never created (stale bytes of the range)", n), "bad"
			}
		}
	}
	return "", "", "ok"
}

func enumC12(quick bool) []detCase {
	const K, M = int64(1) << 10, int64(1) << 20
	sizes := map[string][]int64{
		"fat12":    {64 * K, M, 4*M + 512},
		"fat16":    {4400 * K, 32 * M, 32*M + 512},
		"fat32":    {64 * K, M, 33 * M, 260*M + 512},
		"ext4":     {16 * M, 64 * M},
		"iso":      {4 * M},
		"squashfs": {4 * M},
	}
	// sizes around the cluster-count thresholds 4085 (fat12/fat16) and 65525 (fat16/fat32)
	for s := int64(8234); s <= 8250; s++ {
		sizes["fat16"] = append(sizes["fat16"], s*512)
	}
	for k := int64(0); k <= 20; k++ {
		sizes["fat12"] = append(sizes["fat12"], 16*M-k*4096)
		sizes["fat16"] = append(sizes["fat16"], 128*M-k*2048)
	}
	// each type's smallest sizes, sector by sector: whatever Create accepts there must be recognised again (FAT32: 32 reserved
	// sectors + two one-sector FATs + the 32 KiB minimum data area = 98 sectors; FAT12 from a handful of sectors on)
	for sct := int64(90); sct <= 106; sct++ {
		sizes["fat32"] = append(sizes["fat32"], sct*512)
	}
	for sct := int64(2); sct <= 40; sct += 2 {
		if quick && sct > 24 {
			break
		}
		sizes["fat12"] = append(sizes["fat12"], sct*512)
	}
	if !quick {
		for k := int64(0); k <= 12; k++ {
			sizes["fat12"] = append(sizes["fat12"], 2*M-k*512, 4*M-k*1024, 8*M-512-k*2048)
			sizes["fat16"] = append(sizes["fat16"], 256*M-k*4096)
		}
		sizes["ext4"] = append(sizes["ext4"], 600*M)
	}
	var cs []detCase
	types := []string{"fat12", "fat16", "fat32", "ext4", "iso", "squashfs"}
	for _, ty := range types {
		for si, sz := range sizes[ty] {
			for pi, pl := range []string{"whole", "gpt1", "gpt3", "mbr1"} {
				if si >= 3 && ty != "ext4" && pl != "whole" && pl != "gpt1" {
					continue // threshold sweeps: whole disk and first partition
				}
				labels := []string{"", "A", "ELEVENCHARS"}
				if si >= 3 || quick && pi > 1 {
					labels = []string{"LBL"}
				}
				for _, lb := range labels {
					cs = append(cs, detCase{Type: ty, Size: sz, Placement: pl, Label: lb})
				}
			}
		}
		// stale bytes of every other type left behind in the same range
		for _, prev := range types {
			if prev == ty {
				continue
			}
			for _, pl := range []string{"whole", "gpt1"} {
				sz := sizes[ty][0]
				if s2 := sizes[prev][0]; s2 > sz {
					sz = s2
				}
				if ty == "fat12" && sz > 16*M-64*K {
					continue
				}
				cs = append(cs, detCase{Type: ty, Size: sz, Placement: pl, Previous: prev, Label: "NEW"})
			}
		}
	}
	for _, ty := range types {
		for _, pl := range []string{"whole", "gpt1", "mbr1"} {
			for _, sz := range sizes[ty][:min(2, len(sizes[ty]))] {
				cs = append(cs, detCase{Type: ty, Size: sz, Placement: pl, Previous: "dirnoise", Label: "NEW"})
			}
		}
	}
	// GPT with an empty slot before the target (slots 1, 3, 4) and a decoy of another type in partition 3
	for _, ty := range types {
		cs = append(cs, detCase{Type: ty, Size: sizes[ty][0], Placement: "gpt134", Label: "LBL"})
		cs = append(cs, detCase{Type: ty, Size: sizes[ty][0], Placement: "gptrepart", Label: "LBL"})
	}
	// 4096-byte logical sectors (FAT32 is the writable type that supports them; squashfs always uses them here)
	for _, pl := range []string{"whole", "gpt1", "mbr1", "gpt134"} {
		for _, sz := range []int64{M, 33 * M, 260*M + 4096} {
			cs = append(cs, detCase{Type: "fat32", Size: sz, Placement: pl, Label: "LBL", LSS: 4096})
		}
		cs = append(cs, detCase{Type: "ext4", Size: 16 * M, Placement: pl, Label: "LBL", LSS: 4096})
	}
	for _, pl := range []string{"whole", "gpt1", "gpt3", "mbr1"} {
		cs = append(cs, detCase{Type: "blank", Size: 4 * M, Placement: pl})
	}
	return cs
}

func C12(r *ev.Run) {
	cases := enumC12(r.Quick())
	outcomes := newDistinct()
	ok := newDistinct()
	done := parallel(len(cases), r.OutOfTime, func(i int) {
		c := &cases[i]
		sig, msg, out := runDetCase(c)
		outcomes.add(out)
		if out == "ok" || out == "blank-ok" {
			b, _ := json.Marshal(c)
			ok.add(string(b))
		}
		if sig != "" {
			r.Report("c12|"+sig, msg, c)
		}
		if i%(len(cases)/6+1) == 0 {
			r.Sample(c)
		}
	})
	r.Set("evaluations", int64(done))
	r.Set("distinct_nontrivial", int64(ok.n()))
	r.Set("distinct_outcomes", outcomes.snapshot())
	r.Set("rule", "cross product: type {fat12,fat16,fat32,ext4,iso9660,squashfs} x sizes (each type's small/medium sizes; every sector count 8234..8250 around the 4085-cluster threshold of fat16; 16 MiB-k*4 KiB and 128 MiB-k*2 KiB sweeps around the 4085 / 65525 cluster thresholds as the Create tables produce them; thorough: more table boundaries, 600 MiB ext4) x placement {whole disk, GPT partition 1, GPT partition 3, GPT slots 1,3,4 with a decoy neighbour, a GPT partition added by a later session that re-reads and extends the table, MBR partition 1} x label {empty, 1 char, 11 chars} x previous occupant of the range {none, each other type}; blank ranges in every placement. Each case: disk.CreateFilesystem (+Finalize), then a FRESH disk.Disk on the same bytes: GetPartitionTable().Type(), GetFilesystem(n).Type(), Label(), probe file. non-trivial = distinct cases that Create accepted and that were detected and compared")
	r.Set("exhaustive", done == len(cases))
}
