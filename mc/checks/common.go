// Package checks holds one driver per property. Every driver executes the real library on memdev devices.
package checks

import (
	"bytes"
	"fmt"
	"github.com/diskfs/go-diskfs/filesystem"
	"io"
	"os"
	"runtime"
	"runtime/debug"
	"sort"
	"strings"
	"sync"

	"github.com/diskfs/go-diskfs/backend"
	"github.com/diskfs/go-diskfs/backend/file"

	"verifmc/ev"
	"verifmc/memdev"
)

type Check func(r *ev.Run)

var Registry = map[string]struct {
	Level string
	Fn    Check
}{}

func register(id, level string, fn Check) {
	Registry[id] = struct {
		Level string
		Fn    Check
	}{level, fn}
}

// Replayers re-execute one recorded case without any explorer.
var Replayers = map[string]func(raw []byte) string{}

func be(d *memdev.Dev, ro bool) backend.Storage { return file.New(d, ro) }

// guard runs f and converts a panic into an error string with the library frame that raised it.
func guard(f func()) (panicMsg string) {
	defer func() {
		if x := recover(); x != nil {
			st := string(debug.Stack())
			site := ""
			for _, ln := range strings.Split(st, "\n") {
				if strings.Contains(ln, "github.com/diskfs/go-diskfs/") && strings.Contains(ln, "(") && !strings.Contains(ln, "verifmc") {
					site = strings.TrimSpace(ln)
					if i := strings.LastIndex(site, "("); i > 0 {
						site = site[:i]
					}
					site = site[strings.LastIndex(site, "/")+1:]
					break
				}
			}
			panicMsg = fmt.Sprintf("panic: %v @%s", x, site)
			if panicMsg == "" {
				panicMsg = "panic"
			}
		}
	}()
	f()
	return ""
}

// parallel runs fn(i) for i in [0,n) on all cores; fn must be self-contained. Stops early when stop() is true.
func parallel(n int, stop func() bool, fn func(i int)) (done int) {
	w := runtime.NumCPU()
	if w > n {
		w = n
	}
	if w < 1 {
		w = 1
	}
	var mu sync.Mutex
	next := 0
	var wg sync.WaitGroup
	for k := 0; k < w; k++ {
		wg.Add(1)
		go func() {
			defer wg.Done()
			for {
				mu.Lock()
				if next >= n || (stop != nil && next%64 == 0 && stop()) {
					mu.Unlock()
					return
				}
				i := next
				next++
				mu.Unlock()
				fn(i)
				mu.Lock()
				done++
				mu.Unlock()
			}
		}()
	}
	wg.Wait()
	return done
}

// distinct is a concurrency-safe set of strings used to count distinct outcomes/cases.
type distinct struct {
	mu sync.Mutex
	m  map[string]int
}

func newDistinct() *distinct { return &distinct{m: map[string]int{}} }
func (d *distinct) add(s string) {
	d.mu.Lock()
	d.m[s]++
	d.mu.Unlock()
}
func (d *distinct) n() int {
	d.mu.Lock()
	defer d.mu.Unlock()
	return len(d.m)
}
func (d *distinct) snapshot() map[string]int {
	d.mu.Lock()
	defer d.mu.Unlock()
	o := map[string]int{}
	for k, v := range d.m {
		o[k] = v
	}
	return o
}

// errClass reduces an error to a short class (first words, digits stripped) for outcome statistics.
func errClass(err error) string {
	if err == nil {
		return "ok"
	}
	s := err.Error()
	var sb strings.Builder
	for _, c := range s {
		if c >= '0' && c <= '9' {
			continue
		}
		sb.WriteRune(c)
		if sb.Len() > 48 {
			break
		}
	}
	return "err:" + sb.String()
}

type syncMutex = sync.Mutex

// randomBytes: a deterministic incompressible byte stream (xorshift).
func randomBytes(seed uint64, n int) []byte {
	b := make([]byte, n)
	x := seed*2654435761 + 88172645463325252
	for i := range b {
		x ^= x << 13
		x ^= x >> 7
		x ^= x << 17
		b[i] = byte(x >> 24)
	}
	return b
}

// interleavedRead opens up to eight of the files at once on ONE filesystem object and reads them in turns, chunk bytes at a
// time, until each reports io.EOF; every handle must deliver its own file. Returns "" or a description of the first difference.
func interleavedRead(fsys filesystem.FileSystem, files map[string][]byte, chunk int) string {
	var names []string
	for p, b := range files {
		if len(b) > 0 {
			names = append(names, p)
		}
	}
	sort.Slice(names, func(i, j int) bool {
		if len(files[names[i]]) != len(files[names[j]]) {
			return len(files[names[i]]) > len(files[names[j]])
		}
		return names[i] < names[j]
	})
	if len(names) > 8 {
		names = names[:8]
	}
	if len(names) < 2 {
		return ""
	}
	hs := make([]filesystem.File, len(names))
	got := make([][]byte, len(names))
	done := make([]bool, len(names))
	for i, p := range names {
		f, err := fsys.OpenFile(p, os.O_RDONLY)
		if err != nil {
			return fmt.Sprintf("OpenFile(%s) with %d other handles open: %v", p, i, err)
		}
		hs[i] = f
	}
	buf := make([]byte, chunk)
	for left, rounds := len(names), 0; left > 0; rounds++ {
		if rounds > 1<<20 {
			return "handles never reach the end of their files"
		}
		for i, f := range hs {
			if done[i] {
				continue
			}
			k, err := f.Read(buf)
			got[i] = append(got[i], buf[:k]...)
			if err == io.EOF || (k == 0 && err == nil && len(got[i]) >= len(files[names[i]])) {
				done[i] = true
				left--
				continue
			}
			if err != nil {
				return fmt.Sprintf("Read(%s) at %d while other handles are open: %v", names[i], len(got[i]), err)
			}
			if k == 0 || len(got[i]) > len(files[names[i]])+chunk {
				return fmt.Sprintf("Read(%s) at %d of %d returned (%d, %v)", names[i], len(got[i]), len(files[names[i]]), k, err)
			}
		}
	}
	for i, p := range names {
		_ = hs[i].Close()
		if !bytes.Equal(got[i], files[p]) {
			return fmt.Sprintf("file %s read through a handle that took turns with %d others: %d bytes, source %d, first difference at %d", p, len(names)-1, len(got[i]), len(files[p]), firstDiff(got[i], files[p]))
		}
	}
	return ""
}
