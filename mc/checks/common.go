// Package checks holds one driver per property. Every driver executes the real library on memdev devices.
package checks

import (
	"fmt"
	"runtime"
	"runtime/debug"
	"strings"
	"sync"

	"github.com/diskfs/go-diskfs/backend"
	"github.com/diskfs/go-diskfs/backend/file"

	"verifmc/ev"
	"verifmc/memdev"
)

type Check func(r *ev.Run)

var Registry = map[string]struct {
	Level string
	Fn    Check
}{}

func register(id, level string, fn Check) {
	Registry[id] = struct {
		Level string
		Fn    Check
	}{level, fn}
}

// Replayers re-execute one recorded case without any explorer.
var Replayers = map[string]func(raw []byte) string{}

func be(d *memdev.Dev, ro bool) backend.Storage { return file.New(d, ro) }

// guard runs f and converts a panic into an error string with the library frame that raised it.
func guard(f func()) (panicMsg string) {
	defer func() {
		if x := recover(); x != nil {
			st := string(debug.Stack())
			site := ""
			for _, ln := range strings.Split(st, "\n") {
				if strings.Contains(ln, "github.com/diskfs/go-diskfs/") && strings.Contains(ln, "(") && !strings.Contains(ln, "verifmc") {
					site = strings.TrimSpace(ln)
					if i := strings.LastIndex(site, "("); i > 0 {
						site = site[:i]
					}
					site = site[strings.LastIndex(site, "/")+1:]
					break
				}
			}
			panicMsg = fmt.Sprintf("panic: %v @%s", x, site)
			if panicMsg == "" {
				panicMsg = "panic"
			}
		}
	}()
	f()
	return ""
}

// parallel runs fn(i) for i in [0,n) on all cores; fn must be self-contained. Stops early when stop() is true.
func parallel(n int, stop func() bool, fn func(i int)) (done int) {
	w := runtime.NumCPU()
	if w > n {
		w = n
	}
	if w < 1 {
		w = 1
	}
	var mu sync.Mutex
	next := 0
	var wg sync.WaitGroup
	for k := 0; k < w; k++ {
		wg.Add(1)
		go func() {
			defer wg.Done()
			for {
				mu.Lock()
				if next >= n || (stop != nil && next%64 == 0 && stop()) {
					mu.Unlock()
					return
				}
				i := next
				next++
				mu.Unlock()
				fn(i)
				mu.Lock()
				done++
				mu.Unlock()
			}
		}()
	}
	wg.Wait()
	return done
}

// distinct is a concurrency-safe set of strings used to count distinct outcomes/cases.
type distinct struct {
	mu sync.Mutex
	m  map[string]int
}

func newDistinct() *distinct { return &distinct{m: map[string]int{}} }
func (d *distinct) add(s string) {
	d.mu.Lock()
	d.m[s]++
	d.mu.Unlock()
}
func (d *distinct) n() int {
	d.mu.Lock()
	defer d.mu.Unlock()
	return len(d.m)
}
func (d *distinct) snapshot() map[string]int {
	d.mu.Lock()
	defer d.mu.Unlock()
	o := map[string]int{}
	for k, v := range d.m {
		o[k] = v
	}
	return o
}

// errClass reduces an error to a short class (first words, digits stripped) for outcome statistics.
func errClass(err error) string {
	if err == nil {
		return "ok"
	}
	s := err.Error()
	var sb strings.Builder
	for _, c := range s {
		if c >= '0' && c <= '9' {
			continue
		}
		sb.WriteRune(c)
		if sb.Len() > 48 {
			break
		}
	}
	return "err:" + sb.String()
}

type syncMutex = sync.Mutex

// randomBytes: a deterministic incompressible byte stream (xorshift).
func randomBytes(seed uint64, n int) []byte {
	b := make([]byte, n)
	x := seed*2654435761 + 88172645463325252
	for i := range b {
		x ^= x << 13
		x ^= x >> 7
		x ^= x << 17
		b[i] = byte(x >> 24)
	}
	return b
}
