package checks

import (
	"bytes"
	"encoding/json"
	"fmt"
	"io"
	iofs "io/fs"
	"os"
	"path/filepath"
	"sort"
	"strings"
	"testing/fstest"
	"time"

	"github.com/diskfs/go-diskfs/filesystem"
	"github.com/diskfs/go-diskfs/filesystem/iso9660"
	"github.com/diskfs/go-diskfs/filesystem/squashfs"
	dsync "github.com/diskfs/go-diskfs/sync"

	"verifmc/ev"
)

func init() {
	register("C16", "exploration", C16)
	Replayers["C16"] = func(raw []byte) string {
		var c copyCase
		if err := json.Unmarshal(raw, &c); err != nil {
			return "bad case"
		}
		trees := c16Trees(c.Tier == "quick")
		if c.Tree >= len(trees) {
			return "tree index out of range"
		}
		var sig, msg string
		if c.Kind == "compare" {
			sig, msg, _ = runCompareCase(&c, trees[c.Tree])
		} else {
			sig, msg, _ = runCopyCase(&c, trees[c.Tree])
		}
		if sig == "" {
			return "holds"
		}
		return sig + ": " + msg
	}
}

type copyCase struct {
	Kind     string `json:"kind"` // copy | compare
	Tree     int    `json:"tree_index"`
	Tier     string `json:"tier"`
	Src      string `json:"source,omitempty"`      // osdir fat32 ext4 iso squashfs mapfs stream
	Dst      string `json:"destination,omitempty"` // fat12 fat16 fat32 ext4
	Mutation string `json:"mutation,omitempty"`
	Target   string `json:"mutated_path,omitempty"`
	Swap     bool   `json:"swap_arguments,omitempty"`
	// Pre: the destination already holds, at every path of the source, a file that is 777 bytes LONGER (an earlier copy
	// of a tree whose files have since shrunk)
	Pre bool `json:"destination_prepopulated,omitempty"`
	// Resync: the destination was filled by an earlier CopyFileSystem from a source with the same paths, sizes and
	// modification times but other bytes (a rebuild with a fixed build time stamp)
	Resync bool `json:"resync,omitempty"`
	// TooBig: the source also holds a file one MiB larger than the whole destination: the copy cannot fit. CopyFileSystem must
	// say so - a copy that is reported as successful equals the source
	TooBig bool `json:"too_big,omitempty"`
	// KeepExcluded: the excluded names stay present on both sides of the comparison (they are invisible to CompareFS;
	// the mutation is applied to what it is meant to see)
	KeepExcluded bool `json:"excluded_names_present,omitempty"`
	Desc         any  `json:"tree,omitempty"`
}

var excludedNames = map[string]bool{"lost+found": true, ".DS_Store": true, "System Volume Information": true}

func c16Trees(quick bool) []*treeSpec {
	names := []string{"a", "B2.TXT", "readme.md", "longfilename1.txt", "longfilename2.txt", "notes"}
	sizes := []int{0, 1, 2047, 2048, 2049}
	nr, sr := []int{0, 2, 4}, []int{0, 1, 3}
	maxN := 4
	if quick {
		nr, sr = []int{0}, []int{0, 3}
		maxN = 3
	}
	trees := enumTrees(maxN, names, sizes, nr, sr, defaultContent)
	// excluded names at the root and nested
	trees = append(trees, &treeSpec{Dirs: []string{"d", "lost+found", "d/System Volume Information"}, Files: map[string][]byte{
		"keep.txt": defaultContent("k", 10), ".DS_Store": defaultContent("ds", 5), "lost+found/orphan": defaultContent("o", 7),
		"d/inner.txt": defaultContent("i", 33000), "d/.DS_Store": defaultContent("ds2", 3), "d/System Volume Information/x": defaultContent("x", 1)}})
	// chunk-boundary sizes of CompareFS (32 KiB buffer)
	trees = append(trees, &treeSpec{Files: map[string][]byte{"k32767": defaultContent("p", 32767), "k32768": defaultContent("q", 32768), "k32769": defaultContent("r", 32769), "k70000": defaultContent("s", 70000)}})
	return trees
}

func withoutExcluded(t *treeSpec) (dirs map[string]bool, files map[string][]byte) {
	dirs, files = map[string]bool{}, map[string][]byte{}
	excl := func(p string) bool {
		for _, part := range strings.Split(p, "/") {
			if excludedNames[part] {
				return true
			}
		}
		return false
	}
	for _, d := range t.Dirs {
		if !excl(d) {
			dirs[d] = true
		}
	}
	for p, b := range t.Files {
		if !excl(p) {
			files[p] = b
		}
	}
	return
}

func treeToMapFS(t *treeSpec) fstest.MapFS {
	m := fstest.MapFS{}
	mt := time.Unix(1700000000, 0)
	for _, d := range t.Dirs {
		m[d] = &fstest.MapFile{Mode: iofs.ModeDir | 0o755, ModTime: mt}
	}
	for p, b := range t.Files {
		m[p] = &fstest.MapFile{Data: b, Mode: 0o644, ModTime: mt}
	}
	return m
}

// openSource materialises the tree in a filesystem of the given kind and returns it as fs.FS.
func openSource(kind string, t *treeSpec) (iofs.FS, func(), error) {
	switch kind {
	case "mapfs":
		return treeToMapFS(t), func() {}, nil
	case "osdir":
		dir, err := os.MkdirTemp("", "c16src")
		if err != nil {
			return nil, nil, err
		}
		if err := populateWorkspace(dir, t); err != nil {
			return nil, nil, err
		}
		return os.DirFS(dir), func() { os.RemoveAll(dir) }, nil
	case "fat32", "ext4":
		dst, err := newDest(kind, 8<<20)
		if err != nil {
			return nil, nil, err
		}
		for _, d := range t.Dirs {
			if err := dst.fs.Mkdir(d); err != nil {
				return nil, nil, err
			}
		}
		for _, p := range t.sortedFiles() {
			if i := strings.LastIndex(p, "/"); i > 0 {
				_ = dst.fs.Mkdir(p[:i])
			}
			f, err := dst.fs.OpenFile(p, os.O_CREATE|os.O_RDWR)
			if err != nil {
				return nil, nil, err
			}
			if len(t.Files[p]) > 0 {
				if _, err := f.Write(t.Files[p]); err != nil {
					return nil, nil, err
				}
			}
			f.Close()
		}
		rfs, err := fatRead(dst.cfg, dst.dev, true)
		return rfs, func() {}, err
	case "iso":
		img, err := buildISO(t, iso9660.FinalizeOptions{RockRidge: true}, 2048, 0)
		if err != nil {
			return nil, nil, err
		}
		fs, err := img.open(true)
		return fs, func() {}, err
	default:
		img, err := buildSquash(t, squashfs.FinalizeOptions{}, 4096, 0)
		if err != nil {
			return nil, nil, err
		}
		fs, err := img.open(true)
		return fs, func() {}, err
	}
}

func newDest(kind string, minSize int64) (*fatSys, error) {
	var cfg fatCfg
	switch kind {
	case "fat12":
		cfg = fatCfg{Type: 12, Size: 4 << 20}
	case "fat16":
		cfg = fatCfg{Type: 16, Size: 8 << 20}
	case "fat32":
		cfg = fatCfg{Type: 32, Size: 8 << 20}
	default:
		cfg = fatCfg{Type: 4, Size: 8 << 20, E4SectorsPerBlock: 2}
	}
	if minSize > cfg.Size && cfg.Type != 12 {
		cfg.Size = minSize
	}
	s, err := newFatSys(cfg, "none")
	if err != nil {
		return nil, err
	}
	s.dev.Allowed = nil
	return s, nil
}

func runCopyCase(c *copyCase, t *treeSpec) (sig, msg, outcome string) {
	tag := c.Src + "->" + c.Dst
	var src iofs.FS
	var cleanup func()
	var err error
	if pm := guard(func() { src, cleanup, err = openSource(c.Src, t) }); pm != "" || err != nil {
		return "", "", "source-unavailable:" + errShape(fmt.Sprint(pm, err))
	}
	defer cleanup()
	dst, err := newDest(c.Dst, 0)
	if err != nil {
		return "", "", "dest-unavailable"
	}
	if c.Pre {
		tag += "|over-longer-files"
		_, vf := withoutExcluded(t)
		var perr error
		if pm := guard(func() {
			for p, b := range vf {
				if i := strings.LastIndex(p, "/"); i > 0 {
					if perr = dst.fs.Mkdir(p[:i]); perr != nil {
						return
					}
				}
				f, e := dst.fs.OpenFile(p, os.O_CREATE|os.O_RDWR)
				if e != nil {
					perr = e
					return
				}
				old := bytes.Repeat([]byte{0xEE}, len(b)+777)
				if _, e := f.Write(old); e != nil {
					perr = e
				}
				f.Close()
			}
		}); pm != "" || perr != nil {
			return "", "", "dest-unavailable"
		}
	}
	if c.TooBig {
		tag += "|source-larger-than-destination"
		t2 := &treeSpec{Dirs: t.Dirs, Files: map[string][]byte{}}
		for k, v := range t.Files {
			t2.Files[k] = v
		}
		t2.Files["zz-too-big.bin"] = patternBytes(77, int(dst.cfg.Size)+1<<20)
		src = treeToMapFS(t2)
	}
	if c.Resync {
		tag += "|resync-same-size-and-time"
		prev := &treeSpec{Dirs: t.Dirs, Files: map[string][]byte{}}
		for p, b := range t.Files {
			o := make([]byte, len(b))
			for i := range b {
				o[i] = b[i] ^ 0x55
			}
			prev.Files[p] = o
		}
		var perr error
		if pm := guard(func() { perr = dsync.CopyFileSystem(treeToMapFS(prev), dst.fs) }); pm != "" || perr != nil {
			return "", "", "dest-unavailable"
		}
	}
	var cerr error
	if pm := guard(func() { cerr = dsync.CopyFileSystem(src, dst.fs) }); pm != "" {
		return "copy|" + tag + "|" + pm, "CopyFileSystem panicked: " + pm, "panic"
	}
	if cerr != nil {
		if c.TooBig {
			return "", "", "refused:source-larger-than-destination" // the only honest answer
		}
		return "copy|" + tag + "|failed|" + errShape(cerr.Error()), "CopyFileSystem failed: " + cerr.Error(), "copy-error"
	}
	// what the source shows through its own fs.FS view (the statement's "equal the source"), minus the excluded names
	srcTree := &treeSpec{Files: map[string][]byte{}}
	if werr := iofs.WalkDir(src, ".", func(p string, d iofs.DirEntry, err error) error {
		if err != nil {
			return err
		}
		if p == "." {
			return nil
		}
		if d.IsDir() {
			srcTree.Dirs = append(srcTree.Dirs, p)
			return nil
		}
		if d.Type()&iofs.ModeSymlink != 0 {
			return nil
		}
		b, e := iofs.ReadFile(src, p)
		if e != nil {
			return e
		}
		srcTree.Files[p] = b
		return nil
	}); werr != nil {
		return "", "", "source-unreadable:" + errShape(werr.Error())
	}
	wantDirs, wantFiles := withoutExcluded(srcTree)
	fold := c.Dst != "ext4"
	key := func(p string) string {
		if fold {
			return strings.ToLower(p)
		}
		return p
	}
	var view map[string]viewNode
	var verr error
	if pm := guard(func() { view, verr = fsView(dst.fs, fold, 4096, 1<<25) }); pm != "" || verr != nil {
		return "copy|" + tag + "|destination-unreadable", fmt.Sprint(pm, verr), "bad"
	}
	for d := range wantDirs {
		if v, ok := view[key(d)]; !ok || !v.Dir {
			return "copy|" + tag + "|missing-dir", "directory " + d + " is missing in the destination", "bad"
		}
	}
	for p, b := range wantFiles {
		v, ok := view[key(p)]
		if !ok || v.Dir {
			return "copy|" + tag + "|missing-file", "file " + p + " is missing in the destination", "bad"
		}
		if string(v.Data) != string(b) {
			return "copy|" + tag + "|content", fmt.Sprintf("file %s: destination has %d bytes, source %d, or bytes differ", p, len(v.Data), len(b)), "bad"
		}
	}
	for k, v := range view {
		if excludedNames[baseName(k)] || excludedNames[v.Name] {
			if v.Name == "lost+found" && c.Dst == "ext4" {
				continue
			}
			return "copy|" + tag + "|excluded-name-copied", "excluded name " + k + " was copied", "bad"
		}
		found := false
		for d := range wantDirs {
			if key(d) == k {
				found = true
			}
		}
		for p := range wantFiles {
			if key(p) == k {
				found = true
			}
		}
		if !found {
			return "copy|" + tag + "|extra-entry", "destination has " + k + " which the source does not", "bad"
		}
	}
	// CompareFS on the faithful copy must be nil (both argument orders)
	var e1, e2 error
	if pm := guard(func() {
		e1 = dsync.CompareFS(src, dst.fs)
		e2 = dsync.CompareFS(dst.fs, src)
	}); pm != "" {
		return "compare|" + tag + "|" + pm, pm, "panic"
	}
	if e1 != nil || e2 != nil {
		return "compare|" + tag + "|faithful-copy-reported-different|" + errShape(fmt.Sprint(e1, e2)), fmt.Sprintf("CompareFS on a faithful copy: %v / %v", e1, e2), "bad"
	}
	return "", "", "ok"
}

// ---- single-point mutations for CompareFS ----------------------------------------------------------------

type mutation struct {
	Name, Path string
}

func mutationsOf(t *treeSpec) []mutation {
	var ms []mutation
	for _, p := range t.sortedFiles() {
		for _, m := range []string{"flip-first", "flip-last", "flip-32768", "flip-32767", "drop-last", "append-one", "remove", "to-dir"} {
			ms = append(ms, mutation{m, p})
		}
	}
	dirs := append([]string{"."}, t.Dirs...)
	for _, d := range dirs {
		ms = append(ms, mutation{"add-file", d}, mutation{"add-dir", d}, mutation{"add-file-early", d}, mutation{"add-dir-early", d})
		if d != "." {
			ms = append(ms, mutation{"remove-dir", d}, mutation{"dir-to-file", d})
		}
	}
	return ms
}

// applyMutation returns the mutated copy, or nil when the mutation does not apply (e.g. flipping byte 32768 of a short file).
func applyMutation(t *treeSpec, m mutation) fstest.MapFS {
	fs := treeToMapFS(t)
	mt := time.Unix(1700000000, 0)
	dup := func(b []byte) []byte { return append([]byte(nil), b...) }
	switch m.Name {
	case "flip-first", "flip-last", "flip-32768", "flip-32767", "drop-last", "append-one":
		b := dup(t.Files[m.Path])
		idx := -1
		switch m.Name {
		case "flip-first":
			idx = 0
		case "flip-last":
			idx = len(b) - 1
		case "flip-32768":
			idx = 32768
		case "flip-32767":
			idx = 32767
		}
		switch m.Name {
		case "drop-last":
			if len(b) == 0 {
				return nil
			}
			b = b[:len(b)-1]
		case "append-one":
			b = append(b, 0x5a)
		default:
			if idx < 0 || idx >= len(b) {
				return nil
			}
			b[idx] ^= 0x01
		}
		fs[m.Path] = &fstest.MapFile{Data: b, Mode: 0o644, ModTime: mt}
	case "remove":
		delete(fs, m.Path)
	case "to-dir":
		fs[m.Path] = &fstest.MapFile{Mode: iofs.ModeDir | 0o755, ModTime: mt}
	case "add-file-early", "add-dir-early":
		// names that sort before every other name of the directory (also before ".DS_Store")
		p := "!early"
		if m.Path != "." {
			p = m.Path + "/" + p
		}
		if m.Name == "add-dir-early" {
			fs[p] = &fstest.MapFile{Mode: iofs.ModeDir | 0o755, ModTime: mt}
		} else {
			fs[p] = &fstest.MapFile{Data: nil, Mode: 0o644, ModTime: mt}
		}
	case "add-file":
		p := "zz-extra.txt"
		if m.Path != "." {
			p = m.Path + "/" + p
		}
		fs[p] = &fstest.MapFile{Data: nil, Mode: 0o644, ModTime: mt}
	case "add-dir":
		p := "zz-extra-dir"
		if m.Path != "." {
			p = m.Path + "/" + p
		}
		fs[p] = &fstest.MapFile{Mode: iofs.ModeDir | 0o755, ModTime: mt}
	case "remove-dir":
		for k := range fs {
			if k == m.Path || strings.HasPrefix(k, m.Path+"/") {
				delete(fs, k)
			}
		}
	case "dir-to-file":
		for k := range fs {
			if strings.HasPrefix(k, m.Path+"/") {
				delete(fs, k)
			}
		}
		fs[m.Path] = &fstest.MapFile{Data: nil, Mode: 0o644, ModTime: mt}
	}
	return fs
}

func runCompareCase(c *copyCase, t *treeSpec) (sig, msg, outcome string) {
	// excluded names are invisible to CompareFS by design: mutate only what it is meant to see
	vis := &treeSpec{Files: map[string][]byte{}}
	vis.Dirs, _ = func() ([]string, any) {
		d, f := withoutExcluded(t)
		var ds []string
		for k := range d {
			ds = append(ds, k)
		}
		sort.Strings(ds)
		vis.Files = f
		return ds, nil
	}()
	orig := treeToMapFS(vis)
	base := vis
	if c.KeepExcluded {
		orig = treeToMapFS(t)
		base = t
	}
	if c.Mutation == "none" {
		var err error
		if pm := guard(func() { err = dsync.CompareFS(orig, treeToMapFS(base)) }); pm != "" {
			return "compare|identical|" + pm, pm, "panic"
		}
		if err != nil {
			return "compare|identical-reported-different", "CompareFS of two identical trees: " + err.Error(), "bad"
		}
		return "", "", "identical-ok"
	}
	mut := applyMutation(base, mutation{c.Mutation, c.Target})
	if mut == nil {
		return "", "", "n/a"
	}
	a, b := iofs.FS(orig), iofs.FS(mut)
	if c.Swap {
		a, b = b, a
	}
	var err error
	if pm := guard(func() { err = dsync.CompareFS(a, b) }); pm != "" {
		return "compare|" + c.Mutation + "|" + pm, pm, "panic"
	}
	if err == nil {
		order := "orig,mutated"
		if c.Swap {
			order = "mutated,orig"
		}
		if c.KeepExcluded {
			order += "|excluded-names-present"
		}
		return "compare|difference-missed|" + c.Mutation + "|" + order, fmt.Sprintf("CompareFS returned nil although the target differs by %s of %s", c.Mutation, c.Target), "missed"
	}
	return "", "", "detected:" + c.Mutation
}

// ---- streaming path: a file just above the 64 MiB threshold served by a synthetic source ------------------

type bigFS struct{ size int64 }
type bigFile struct {
	size, pos int64
	eofWith   bool
}
type bigInfo struct {
	name string
	size int64
	dir  bool
}

func (i bigInfo) Name() string { return i.name }
func (i bigInfo) Size() int64  { return i.size }
func (i bigInfo) Mode() iofs.FileMode {
	if i.dir {
		return iofs.ModeDir | 0o755
	}
	return 0o644
}
func (i bigInfo) ModTime() time.Time           { return time.Unix(1700000000, 0) }
func (i bigInfo) IsDir() bool                  { return i.dir }
func (i bigInfo) Sys() any                     { return nil }
func (i bigInfo) Type() iofs.FileMode          { return i.Mode().Type() }
func (i bigInfo) Info() (iofs.FileInfo, error) { return i, nil }

func bigByte(off int64) byte {
	if off < 4096 || off%(1<<20) < 8 || off > 64<<20 {
		return byte(1 + off%250)
	}
	return 0
}
func (f *bigFile) Stat() (iofs.FileInfo, error) { return bigInfo{"big.bin", f.size, false}, nil }
func (f *bigFile) Close() error                 { return nil }
func (f *bigFile) Read(p []byte) (int, error) {
	if f.pos >= f.size {
		return 0, io.EOF
	}
	n := int64(len(p))
	if n > f.size-f.pos {
		n = f.size - f.pos
	}
	for i := int64(0); i < n; i++ {
		p[i] = bigByte(f.pos + i)
	}
	f.pos += n
	if f.eofWith && f.pos >= f.size {
		return int(n), io.EOF // the last bytes arrive together with io.EOF, as the library's own readers do
	}
	return int(n), nil
}

type bigDir struct {
	size int64
	done bool
}

func (d *bigDir) Stat() (iofs.FileInfo, error) { return bigInfo{".", 0, true}, nil }
func (d *bigDir) Close() error                 { return nil }
func (d *bigDir) Read([]byte) (int, error)     { return 0, io.EOF }
func (d *bigDir) ReadDir(n int) ([]iofs.DirEntry, error) {
	if d.done {
		if n > 0 {
			return nil, io.EOF
		}
		return nil, nil
	}
	d.done = true
	return []iofs.DirEntry{bigInfo{"big.bin", d.size, false}}, nil
}
func (b bigFS) Open(name string) (iofs.File, error) {
	switch name {
	case ".":
		return &bigDir{size: b.size}, nil
	case "big.bin":
		return &bigFile{size: b.size, eofWith: true}, nil
	}
	return nil, iofs.ErrNotExist
}

func runStreamCase(dstKind string) (sig, msg, outcome string) {
	size := int64(64<<20 + 1234)
	dst, err := newDest(dstKind, 96<<20)
	if err != nil {
		return "", "", "dest-unavailable"
	}
	var cerr error
	if pm := guard(func() { cerr = dsync.CopyFileSystem(bigFS{size}, dst.fs) }); pm != "" {
		return "copy|stream->" + dstKind + "|" + pm, pm, "panic"
	}
	if cerr != nil {
		return "copy|stream->" + dstKind + "|failed|" + errShape(cerr.Error()), cerr.Error(), "copy-error"
	}
	f, err := dst.fs.OpenFile("big.bin", os.O_RDONLY)
	if err != nil {
		return "copy|stream->" + dstKind + "|missing-file", err.Error(), "bad"
	}
	defer f.Close()
	buf := make([]byte, 1<<20)
	var off int64
	for {
		n, e := f.Read(buf)
		for i := 0; i < n; i++ {
			if buf[i] != bigByte(off+int64(i)) {
				return "copy|stream->" + dstKind + "|content", fmt.Sprintf("byte %d of the streamed copy differs", off+int64(i)), "bad"
			}
		}
		off += int64(n)
		if e == io.EOF {
			break
		}
		if e != nil {
			return "copy|stream->" + dstKind + "|read-error", e.Error(), "bad"
		}
		if n == 0 {
			break
		}
	}
	if off != size {
		return "copy|stream->" + dstKind + "|content-length", fmt.Sprintf("the streamed copy has %d bytes, the source %d", off, size), "bad"
	}
	return "", "", "stream-ok"
}

func C16(r *ev.Run) {
	trees := c16Trees(r.Quick())
	var cases []copyCase
	srcs := []string{"mapfs", "osdir", "fat32", "ext4", "iso", "squashfs"}
	dsts := []string{"fat12", "fat16", "fat32", "ext4"}
	for ti := range trees {
		for si, s := range srcs {
			for di, d := range dsts {
				if r.Quick() && (ti+si+di)%4 != 0 && ti < len(trees)-2 {
					continue
				}
				if !r.Quick() && si > 1 && (ti+si+di)%3 != 0 && ti < len(trees)-2 {
					continue
				}
				cases = append(cases, copyCase{Kind: "copy", Tree: ti, Tier: r.Tier, Src: s, Dst: d})
			}
		}
		// a second copy over a destination that already holds longer files at the same paths
		if !r.Quick() || ti%3 == 0 || ti >= len(trees)-2 {
			for di, d := range dsts {
				if r.Quick() && (ti+di)%2 != 0 && ti < len(trees)-2 {
					continue
				}
				if d == "ext4" {
					// ext4's OpenFile ignores O_TRUNC altogether (the C04 statement accordingly lists no truncating open for
					// ext4); a copy over longer files is therefore only judged on the FAT destinations, where a truncating
					// open is part of the stated behaviour (C01)
					continue
				}
				cases = append(cases, copyCase{Kind: "copy", Tree: ti, Tier: r.Tier, Src: "mapfs", Dst: d, Pre: true})
			}
			// ... a source that cannot fit into the destination
			if ti%5 == 0 || ti >= len(trees)-2 {
				for di, d := range dsts {
					if r.Quick() && (ti+di)%2 != 0 && ti < len(trees)-2 {
						continue
					}
					cases = append(cases, copyCase{Kind: "copy", Tree: ti, Tier: r.Tier, Src: "mapfs", Dst: d, TooBig: true})
				}
			}
			// ... and over a destination that an earlier copy filled from a source with the same paths, sizes and times
			for di, d := range dsts {
				if r.Quick() && (ti+di)%2 != 1 && ti < len(trees)-2 {
					continue
				}
				cases = append(cases, copyCase{Kind: "copy", Tree: ti, Tier: r.Tier, Src: "mapfs", Dst: d, Resync: true})
			}
		}
		if r.Quick() && ti%3 != 0 && ti < len(trees)-2 {
			continue
		}
		cases = append(cases, copyCase{Kind: "compare", Tree: ti, Tier: r.Tier, Mutation: "none"})
		vd, vf := withoutExcluded(trees[ti])
		vis := &treeSpec{Files: vf}
		for k := range vd {
			vis.Dirs = append(vis.Dirs, k)
		}
		sort.Strings(vis.Dirs)
		hasExcluded := len(vf) != len(trees[ti].Files)
		for _, m := range mutationsOf(vis) {
			for _, sw := range []bool{false, true} {
				cases = append(cases, copyCase{Kind: "compare", Tree: ti, Tier: r.Tier, Mutation: m.Name, Target: m.Path, Swap: sw})
				if hasExcluded {
					cases = append(cases, copyCase{Kind: "compare", Tree: ti, Tier: r.Tier, Mutation: m.Name, Target: m.Path, Swap: sw, KeepExcluded: true})
				}
			}
		}
		if hasExcluded {
			cases = append(cases, copyCase{Kind: "compare", Tree: ti, Tier: r.Tier, Mutation: "none", KeepExcluded: true})
		}
	}
	outcomes := newDistinct()
	ok := newDistinct()
	done := parallel(len(cases), r.OutOfTime, func(i int) {
		c := &cases[i]
		var sig, msg, out string
		if c.Kind == "copy" {
			sig, msg, out = runCopyCase(c, trees[c.Tree])
		} else {
			sig, msg, out = runCompareCase(c, trees[c.Tree])
		}
		outcomes.add(strings.SplitN(out, ":", 2)[0])
		if out == "ok" || strings.HasPrefix(out, "detected") || out == "identical-ok" {
			b, _ := json.Marshal(c)
			ok.add(string(b))
		}
		if sig != "" {
			c.Desc = trees[c.Tree].describe()
			r.Report("c16|"+sig, msg, c)
		}
		if i%(len(cases)/6+1) == 0 {
			cc := *c
			cc.Desc = trees[c.Tree].describe()
			r.Sample(cc)
		}
	})
	// the streaming branch (> 64 MiB)
	streamDst := []string{"fat32"}
	if !r.Quick() {
		streamDst = []string{"fat32", "ext4"}
	}
	for _, d := range streamDst {
		sig, msg, out := runStreamCase(d)
		outcomes.add(out)
		done++
		if sig != "" {
			r.Report("c16|"+sig, msg, map[string]any{"kind": "stream", "destination": d})
		} else {
			ok.add("stream->" + d)
		}
	}
	r.Set("evaluations", int64(done))
	r.Set("distinct_nontrivial", int64(ok.n()))
	r.Set("distinct_outcomes", outcomes.snapshot())
	r.Set("rule", "trees: every ordered forest with <= 4 (quick: 3) nodes x name/size rotations (sizes {0,1,2047,2048,2049}), a tree with the excluded names at the root and nested, a tree of files sized around CompareFS's 32 KiB chunk; copy: source {MapFS, os directory, fat32, ext4, iso9660, squashfs} x destination {fat12, fat16, fat32, ext4}, destination compared with the source by an independent walk, CompareFS on the faithful copy in both argument orders; a 64 MiB+1234-byte file from a synthetic sparse source through the streaming branch; compare: for every tree every single-point mutation (per file: flip first/last/byte 32767/byte 32768, drop last byte, append a byte, remove, turn into a directory; per directory: add a file or a directory whose name sorts last, or first, remove it, turn it into a file) in both argument orders must be reported, for the tree with excluded names also with those names present on both sides; copies also into a destination that already holds longer files at the same paths, and into one that an earlier CopyFileSystem filled from a source with the same paths, sizes and modification times but other bytes; and from a source that holds a file larger than the whole destination (the copy must be refused, or equal the source). non-trivial = distinct copy cases verified end to end + distinct mutations detected")
	r.Set("exhaustive", done >= len(cases))
	_ = filepath.Join
	_ = filesystem.ErrNotSupported
}
