package checks

import (
	"fmt"
	"os"
)

// WorkerMain is the entry point of child processes (vmc worker <kind> ...).
var workers = map[string]func(args []string){}

func WorkerMain(args []string) {
	if len(args) == 0 {
		os.Exit(2)
	}
	f, ok := workers[args[0]]
	if !ok {
		fmt.Fprintln(os.Stderr, "unknown worker", args[0])
		os.Exit(2)
	}
	f(args[1:])
}
