package checks

// Foreign GPT tables: disks whose table was NOT written by the library (other tools write entry arrays with a
// number of slots different from the library's fixed 128, and put the first usable sector right behind a short
// array). They are built here byte by byte from the UEFI layout, validated by the independent parser, and then taken
// through the library's read - modify - write cycle. Judged by C02 (valid on disk, reads back as written), C03 (only
// the table's own sectors change), C14 (re-writing what was read changes nothing).

import (
	"encoding/binary"
	"encoding/hex"
	"encoding/json"
	"fmt"
	"hash/crc32"
	"strings"
	"unicode/utf16"

	"github.com/diskfs/go-diskfs/partition/gpt"

	"verifmc/memdev"
	"verifmc/oracle/gptck"
)

type foreignCase struct {
	Count    int    `json:"entry_slots"`
	LSS      int    `json:"lss"`
	DiskSize int64  `json:"disk_size"`
	Used     int    `json:"used_slots"` // slots 1..Used hold partitions (slot 2 stays empty when Used >= 3)
	Layout   string `json:"layout"`     // tight: first usable LBA directly behind the array | roomy: LBA 34-style (16 KiB reserved)
	PMBR     bool   `json:"pmbr"`
	Mod      string `json:"mod"` // none | rename | add | drop
}

func guidBytes(s string) []byte {
	h, _ := hex.DecodeString(strings.ReplaceAll(s, "-", ""))
	b := make([]byte, 16)
	// mixed endian: first three groups little-endian
	b[0], b[1], b[2], b[3] = h[3], h[2], h[1], h[0]
	b[4], b[5] = h[5], h[4]
	b[6], b[7] = h[7], h[6]
	copy(b[8:], h[8:])
	return b
}

type foreignLayout struct {
	n, arrSectors, firstUsable, lastUsable, backupArray uint64
}

func (c *foreignCase) layout() foreignLayout {
	lss := uint64(c.LSS)
	n := uint64(c.DiskSize) / lss
	arr := (uint64(c.Count)*128 + lss - 1) / lss
	res := arr
	if c.Layout == "roomy" {
		if r := (16384 + lss - 1) / lss; r > res {
			res = r
		}
	}
	return foreignLayout{n: n, arrSectors: arr, firstUsable: 2 + res, lastUsable: n - 2 - res, backupArray: n - 1 - arr}
}

type foreignPart struct {
	Slot       int
	First, End uint64
	Name       string
	GUID       string
}

func (c *foreignCase) parts() []foreignPart {
	l := c.layout()
	var ps []foreignPart
	span := (l.lastUsable - l.firstUsable + 1) / uint64(c.Used+2)
	if span < 1 {
		span = 1
	}
	k := 0
	for s := 1; s <= c.Used; s++ {
		if s == 2 && c.Used >= 3 {
			continue
		}
		first := l.firstUsable + uint64(k)*span
		end := first + span - 1
		if k == 0 {
			first = l.firstUsable // the first partition starts on the very first usable sector
		}
		ps = append(ps, foreignPart{Slot: s, First: first, End: end, Name: fmt.Sprintf("foreign-%d", s), GUID: partGUID(0x40 + s)})
		k++
	}
	// the last partition ends on the very last usable sector
	if len(ps) > 0 {
		ps[len(ps)-1].End = l.lastUsable
	}
	return ps
}

// craftForeign writes the table onto d with no library code.
func craftForeign(d *memdev.Dev, c *foreignCase) {
	l := c.layout()
	lss := int64(c.LSS)
	arr := make([]byte, c.Count*128)
	for _, p := range c.parts() {
		e := arr[(p.Slot-1)*128 : p.Slot*128]
		copy(e[0:16], guidBytes(string(gpt.LinuxFilesystem)))
		copy(e[16:32], guidBytes(p.GUID))
		binary.LittleEndian.PutUint64(e[32:40], p.First)
		binary.LittleEndian.PutUint64(e[40:48], p.End)
		binary.LittleEndian.PutUint64(e[48:56], uint64(p.Slot)<<48)
		for i, u := range utf16.Encode([]rune(p.Name)) {
			binary.LittleEndian.PutUint16(e[56+2*i:], u)
		}
	}
	acrc := crc32.ChecksumIEEE(arr)
	hdr := func(my, alt, arrLBA uint64) []byte {
		b := make([]byte, lss)
		copy(b[0:8], "EFI PART")
		binary.LittleEndian.PutUint32(b[8:12], 0x00010000)
		binary.LittleEndian.PutUint32(b[12:16], 92)
		binary.LittleEndian.PutUint64(b[24:32], my)
		binary.LittleEndian.PutUint64(b[32:40], alt)
		binary.LittleEndian.PutUint64(b[40:48], l.firstUsable)
		binary.LittleEndian.PutUint64(b[48:56], l.lastUsable)
		copy(b[56:72], guidBytes(fixedDiskGUID))
		binary.LittleEndian.PutUint64(b[72:80], arrLBA)
		binary.LittleEndian.PutUint32(b[80:84], uint32(c.Count))
		binary.LittleEndian.PutUint32(b[84:88], 128)
		binary.LittleEndian.PutUint32(b[88:92], acrc)
		binary.LittleEndian.PutUint32(b[16:20], crc32.ChecksumIEEE(b[:92]))
		return b
	}
	if c.PMBR {
		m := make([]byte, 512)
		e := m[446:462]
		e[1], e[2], e[3] = 0, 2, 0
		e[4] = 0xEE
		e[5], e[6], e[7] = 0xff, 0xff, 0xff
		binary.LittleEndian.PutUint32(e[8:12], 1)
		sz := l.n - 1
		if sz > 0xFFFFFFFF {
			sz = 0xFFFFFFFF
		}
		binary.LittleEndian.PutUint32(e[12:16], uint32(sz))
		m[510], m[511] = 0x55, 0xaa
		d.Poke(m, 0)
	}
	d.Poke(hdr(1, l.n-1, 2), lss)
	d.Poke(arr, 2*lss)
	d.Poke(arr, int64(l.backupArray)*lss)
	d.Poke(hdr(l.n-1, 1, l.backupArray), int64(l.n-1)*lss)
}

func enumForeign(quick bool) []foreignCase {
	var out []foreignCase
	counts := []int{4, 8, 56, 128, 192}
	if !quick {
		counts = []int{1, 4, 8, 12, 32, 56, 100, 128, 132, 192, 256}
	}
	for _, lss := range []int{512, 4096} {
		for _, cnt := range counts {
			for _, layout := range []string{"tight", "roomy"} {
				for _, used := range []int{0, 1, 3} {
					if used > cnt {
						continue
					}
					for _, mod := range []string{"none", "rename", "add", "drop"} {
						if used == 0 && (mod == "rename" || mod == "drop") {
							continue
						}
						if mod == "add" && used >= cnt {
							continue
						}
						for _, pm := range []bool{true, false} {
							if !pm && (quick || layout == "roomy") {
								continue
							}
							out = append(out, foreignCase{Count: cnt, LSS: lss, DiskSize: 1<<20 + int64(lss)*3, Used: used, Layout: layout, PMBR: pm, Mod: mod})
						}
					}
				}
			}
		}
	}
	return out
}

type foreignResult struct {
	Outcome  string // ok | read-refused | write-refused | infra
	C02Sig   string
	C02Msg   string
	C03Sig   string
	C03Msg   string
	C14Sig   string
	C14Msg   string
	InfraMsg string
}

func runForeignCase(c *foreignCase) (res foreignResult) {
	l := c.layout()
	lss := int64(c.LSS)
	d := memdev.New(c.DiskSize)
	// partition data everywhere in the usable area near both arrays, and boot code in LBA 0
	pat := patternBytes(13, int(8*lss))
	d.Poke(pat, int64(l.firstUsable)*lss)
	d.Poke(pat, int64(l.lastUsable+1)*lss-int64(len(pat)))
	d.Poke(patternBytes(14, 440), 0)
	craftForeign(d, c)
	if _, bad := gptck.CheckDisk(d, c.LSS, c.DiskSize, c.PMBR); len(bad) > 0 {
		res.Outcome = "infra"
		res.InfraMsg = "crafted table is not valid for the independent parser: " + strings.Join(bad, "; ")
		return
	}
	var t *gpt.Table
	var rerr error
	if pm := guard(func() { t, rerr = gpt.Read(be(d.Clone(), true), c.LSS, c.LSS) }); pm != "" {
		res.Outcome = "read-panic"
		res.C02Sig, res.C02Msg = "foreign|gpt-read-panic|"+pm, "gpt.Read of a valid table written by another tool panicked: "+pm
		return
	}
	if rerr != nil || t == nil {
		res.Outcome = "read-refused"
		return
	}
	want := c.parts()
	if len(t.Partitions) != len(want) {
		res.Outcome = "read-differs" // reading tables of other tools correctly is not what C02 states; counted only
		return
	}
	switch c.Mod {
	case "rename":
		t.Partitions[0].Name = "renamed-by-the-library"
		want[0].Name = "renamed-by-the-library"
	case "drop":
		t.Partitions = t.Partitions[1:]
		want = want[1:]
	case "add":
		// a free slot and a free sector range: between the partitions there is always room behind the last but one
		slot := c.Used + 1
		var s, e uint64
		if len(want) == 0 {
			s, e = l.firstUsable, l.firstUsable
		} else {
			// shrink the last partition by one sector and put the new one there
			last := t.Partitions[len(t.Partitions)-1]
			if last.End <= last.Start {
				res.Outcome = "n/a"
				return
			}
			last.End--
			last.Size = (last.End - last.Start + 1) * uint64(c.LSS)
			want[len(want)-1].End--
			s, e = l.lastUsable, l.lastUsable
		}
		t.Partitions = append(t.Partitions, &gpt.Partition{Index: slot, Start: s, End: e, Type: gpt.LinuxFilesystem, Name: "added", GUID: partGUID(0x70)})
		want = append(want, foreignPart{Slot: slot, First: s, End: e, Name: "added", GUID: partGUID(0x70)})
	}
	before := d.Clone()
	w := d.Clone()
	w.Allowed = []memdev.Range{{Lo: lss, Hi: int64(l.firstUsable) * lss}, {Lo: int64(l.lastUsable+1) * lss, Hi: int64(l.n) * lss}}
	if c.PMBR {
		w.Allowed = append(w.Allowed, memdev.Range{Lo: 446, Hi: 512})
	}
	var werr error
	if pm := guard(func() { werr = t.Write(w, c.DiskSize) }); pm != "" {
		res.Outcome = "write-panic"
		res.C02Sig, res.C02Msg = "foreign|gpt-write-panic|"+pm, "Table.Write of a table read from a disk partitioned by another tool panicked: "+pm
		return
	}
	// C03: whatever Write answered, nothing outside the table's own sectors may have changed
	if len(w.Outside) > 0 {
		o := w.Outside[0]
		res.C03Sig = "c03|table|gpt-foreign|write-outside|" + lastFrame(o.Stack)
		res.C03Msg = fmt.Sprintf("re-writing a %d-slot GPT (first usable LBA %d, last usable LBA %d of %d) wrote %d bytes at offset %d = LBA %d, outside the table's own sectors", c.Count, l.firstUsable, l.lastUsable, l.n, o.Len, o.Off, o.Off/lss)
	} else if w.Size() != before.Size() {
		res.C03Sig = "c03|table|gpt-foreign|device-grew"
		res.C03Msg = fmt.Sprintf("the device grew from %d to %d bytes", before.Size(), w.Size())
	} else {
		for _, probe := range []memdev.Range{{Lo: 0, Hi: 446}, {Lo: int64(l.firstUsable) * lss, Hi: int64(l.lastUsable+1) * lss}} {
			if string(w.Peek(probe.Lo, int(probe.Hi-probe.Lo))) != string(before.Peek(probe.Lo, int(probe.Hi-probe.Lo))) {
				res.C03Sig = "c03|table|gpt-foreign|collateral-change"
				res.C03Msg = fmt.Sprintf("bytes in [%d,%d) (boot code / partition data) changed", probe.Lo, probe.Hi)
			}
		}
	}
	if werr != nil {
		res.Outcome = "write-refused"
		return
	}
	res.Outcome = "ok"
	// C14: re-writing what was read changes nothing
	// (the cylinder/head/sector fields of the protective MBR entry are not part of what a GPT table object carries; tools
	// encode them differently - 0x000200/0xFFFFFF per the UEFI text, zeroes elsewhere - so they are left out of the comparison)
	maskCHS := func(x *memdev.Dev) [32]byte {
		y := x.Clone()
		y.Poke(make([]byte, 3), 447)
		y.Poke(make([]byte, 3), 451)
		return y.Digest()
	}
	if c.Mod == "none" && maskCHS(w) != maskCHS(before) {
		res.C14Sig = "c14|table|gpt-foreign|rewrite-changes-bytes"
		res.C14Msg = fmt.Sprintf("a %d-slot GPT read from disk and written back unchanged altered the disk", c.Count)
	}
	// C02: valid for the independent parser and reads back as written
	h, bad := gptck.CheckDisk(w, c.LSS, c.DiskSize, c.PMBR)
	if len(bad) > 0 {
		res.C02Sig, res.C02Msg = "foreign|gpt-ondisk|"+firstWords(bad[0]), fmt.Sprintf("after read-%s-write of a %d-slot table the independent GPT reader says: %s", c.Mod, c.Count, strings.Join(bad, "; "))
		return
	}
	if len(h.Entries) != len(want) {
		res.C02Sig, res.C02Msg = "foreign|gpt-ondisk|entry-count", fmt.Sprintf("independent reader finds %d entries, %d expected", len(h.Entries), len(want))
		return
	}
	for i, wp := range want {
		e := h.Entries[i]
		if e.Index != wp.Slot || e.First != wp.First || e.Last != wp.End || e.Name != wp.Name || !strings.EqualFold(e.GUID, wp.GUID) {
			res.C02Sig, res.C02Msg = "foreign|gpt-ondisk|entry-content", fmt.Sprintf("independent reader: slot %d = %+v, want %+v", e.Index, e, wp)
			return
		}
	}
	var rt *gpt.Table
	if pm := guard(func() { rt, rerr = gpt.Read(be(w.Clone(), true), c.LSS, c.LSS) }); pm != "" || rerr != nil || rt == nil {
		res.C02Sig, res.C02Msg = "foreign|gpt-readback|error", fmt.Sprintf("gpt.Read after the rewrite: %v %s", rerr, pm)
		return
	}
	if rt.RecoveredFromBackup {
		res.C02Sig, res.C02Msg = "foreign|gpt-readback|from-backup", "a completed Write was read from the backup copy"
		return
	}
	if len(rt.Partitions) != len(want) {
		res.C02Sig, res.C02Msg = "foreign|gpt-readback|count", fmt.Sprintf("%d partitions read back, %d written", len(rt.Partitions), len(want))
		return
	}
	for i, wp := range want {
		g := rt.Partitions[i]
		if g.Index != wp.Slot || g.Start != wp.First || g.End != wp.End || g.Name != wp.Name || !strings.EqualFold(g.GUID, wp.GUID) {
			res.C02Sig, res.C02Msg = "foreign|gpt-readback|field", fmt.Sprintf("partition %d read back as %+v, want %+v", wp.Slot, *g, wp)
			return
		}
	}
	return
}

// replayForeign re-executes a recorded foreign-table case; which = "C02" | "C03" | "C14". ok=false: not such a case.
func replayForeign(raw []byte, which string) (string, bool) {
	var f struct {
		Foreign *foreignCase `json:"foreign"`
	}
	if json.Unmarshal(raw, &f) != nil || f.Foreign == nil {
		return "", false
	}
	res := runForeignCase(f.Foreign)
	sig, msg := res.C02Sig, res.C02Msg
	switch which {
	case "C03":
		sig, msg = res.C03Sig, res.C03Msg
	case "C14":
		sig, msg = res.C14Sig, res.C14Msg
	}
	if sig == "" {
		return "holds", true
	}
	return sig + ": " + msg, true
}
