package checks

import (
	"os"
	"runtime/pprof"
	"testing"
	"time"
)

func TestProfFat(t *testing.T) {
	sc := fatFillScenario(fatCfg{Type: 12, Size: 64 << 10}, "model", 5)
	es := sc.scenario(nil)
	f, _ := os.Create("/dev/shm/cpu.prof")
	pprof.StartCPUProfile(f)
	t0 := time.Now()
	n := 0
	for a := 0; a < len(es.Letters); a++ {
		for b := 0; b < len(es.Letters); b++ {
			for c := 0; c < 4; c++ {
				es.Run([]uint16{uint16(a), uint16(b), uint16(c)})
				n++
			}
		}
	}
	pprof.StopCPUProfile()
	t.Logf("%d runs %v per run", n, time.Since(t0)/time.Duration(n))
}
