package checks

import (
	"bytes"
	"encoding/json"
	"fmt"
	"io"
	iofs "io/fs"
	"os"
	"os/exec"
	"path/filepath"
	"sort"
	"strings"
	"sync"

	"github.com/diskfs/go-diskfs/filesystem/ext4"

	"verifmc/ev"
	"verifmc/memdev"
)

func init() {
	register("C20", "exploration", C20)
	Replayers["C20"] = func(raw []byte) string {
		var c mkfsCase
		if err := json.Unmarshal(raw, &c); err != nil {
			return "bad case"
		}
		sig, msg, _ := runMkfsCase(&c)
		if sig == "" {
			return "holds"
		}
		return sig + ": " + msg
	}
}

type mkfsCase struct {
	BlockSize int      `json:"block_size"`
	InodeSize int      `json:"inode_size"`
	Features  []string `json:"features"` // passed to -O (with ^ for off)
	FSType    string   `json:"fs_type"`  // ext4 | ext2-style (^extent)
	Tree      string   `json:"tree"`     // std | deep-htree
}

type hostTree struct {
	dir   string
	files map[string][]byte // path -> contents (holes are zero bytes)
	dirs  []string
	links map[string]string
	// attributes set afterwards with debugfs
	modes  map[string]uint32
	owners map[string][2]uint32
	mtimes map[string]int64
	xattrs map[string]map[string]string
	// huge: files defined by a size and a few data segments (everything else is a hole); compared through probe windows
	huge map[string]hugeFile
	// removed: files that are put in by mke2fs -d and then removed again with debugfs rm (after e2fsck -fD), so that the
	// directory keeps unused records - also as the first record of a block - in front of live ones
	removed []string
}

type hugeFile struct {
	size int64
	segs []hugeSeg
}
type hugeSeg struct {
	off  int64
	data []byte
}

func (h hugeFile) expect(off int64, n int) []byte {
	out := make([]byte, n)
	for _, sg := range h.segs {
		for i := range sg.data {
			if p := sg.off + int64(i) - off; p >= 0 && p < int64(n) {
				out[p] = sg.data[i]
			}
		}
	}
	return out
}

var hostTrees = struct {
	sync.Mutex
	m map[string]*hostTree
}{m: map[string]*hostTree{}}

func buildHostTree(kind string) (*hostTree, error) {
	hostTrees.Lock()
	defer hostTrees.Unlock()
	if t, ok := hostTrees.m[kind]; ok {
		return t, nil
	}
	base := os.Getenv("VERIF_SCRATCH")
	if base == "" {
		base = os.TempDir()
	}
	dir := filepath.Join(base, "c20-host-"+kind)
	_ = os.RemoveAll(dir)
	t := &hostTree{dir: dir, files: map[string][]byte{}, links: map[string]string{}, modes: map[string]uint32{}, owners: map[string][2]uint32{}, mtimes: map[string]int64{}, xattrs: map[string]map[string]string{}}
	add := func(p string, b []byte) { t.files[p] = b }
	t.dirs = []string{"bigdir", "sub", "sub/deeper"}
	nbig, namelen := 400, 20
	if kind == "deep-htree" {
		nbig, namelen = 2000, 180
	}
	t.huge = map[string]hugeFile{}
	hostOnly := map[string][]byte{}
	if kind == "maxextent" {
		nbig = 5
		// a contiguous file of exactly 32768 blocks of 1 KiB: after e2fsck -E bmap2extent it is one extent of the maximum
		// length a written extent can have (mke2fs itself caps extents at 32767)
		mb := randomBytes(2020, 32768*1024)
		for i := range mb {
			mb[i] |= 1 // no zero bytes: a range read as a hole is unmistakable
		}
		add("maxextent.bin", mb)
	}
	if kind == "contig66" {
		nbig = 5
		// one contiguous file of more than 65535 blocks of 1 KiB: several maximum-length extents that follow one another
		// without a gap on the disk (whoever joins neighbouring extents must not do it in 16 bits)
		cb := randomBytes(2021, 66<<20+50<<10)
		for i := range cb {
			cb[i] |= 1
		}
		add("contig66.bin", cb)
	}
	if kind == "special" {
		nbig = 30
		// a sparse file larger than 4 GiB: data at 0 and just beyond 4 GiB, holes in between and behind
		t.huge["huge.bin"] = hugeFile{size: 4<<30 + 40960, segs: []hugeSeg{{0, patternBytes(21, 10240)}, {4<<30 + 10240, patternBytes(22, 10240)}}}
		// a directory of 200 entries with 60-character names from which a run of 80 neighbours is removed afterwards: the
		// run is longer than a directory block, so one removed entry is the first record of its block
		t.dirs = append(t.dirs, "holes")
		for i := 0; i < 200; i++ {
			name := fmt.Sprintf("holes/h%03d-%s", i, strings.Repeat("m", 55))
			if i >= 20 && i < 100 {
				hostOnly[name] = []byte("x")
				t.removed = append(t.removed, name)
			} else {
				add(name, []byte(fmt.Sprintf("kept %d\n", i)))
			}
		}
	}
	for i := 0; i < nbig; i++ {
		name := fmt.Sprintf("e%05d-%s", i, strings.Repeat("n", namelen))
		add("bigdir/"+name, []byte(fmt.Sprintf("entry %d\n", i)))
	}
	// 200 alternating data / hole blocks of 4 KiB => about 100 extents, an extent tree with interior nodes
	frag := make([]byte, 200*4096)
	for b := 0; b < 200; b += 2 {
		copy(frag[b*4096:], patternBytes(b, 4096))
	}
	add("frag.bin", frag)
	// 130 data blocks of 4 KiB, one every 64 KiB: far more hole than data, and more extents than fit into the inode, so the
	// extent tree has an index root whose entries lie further apart than the file has allocated blocks
	stride := make([]byte, 130*16*4096+300)
	for b := 0; b < 130; b++ {
		copy(stride[b*16*4096:], patternBytes(100+b, 4096))
	}
	copy(stride[130*16*4096:], patternBytes(99, 300))
	add("stride.bin", stride)
	sp := make([]byte, 1<<20+77)
	copy(sp[1<<20:], "tail-after-a-one-megabyte-hole")
	add("sparse.bin", sp)
	add("plain.txt", patternBytes(7, 12345))
	add("empty", nil)
	add("sub/deeper/leaf.bin", patternBytes(8, 4097))
	add("attrs.bin", patternBytes(9, 10))
	add("xattr-inode.bin", patternBytes(10, 10))
	add("xattr-block.bin", patternBytes(11, 10))
	t.links["fast59"] = strings.Repeat("a", 59)
	t.links["slow60"] = strings.Repeat("b", 60)
	t.links["slow200"] = "/" + strings.Repeat("c", 199)
	t.links["rel"] = "sub/deeper/leaf.bin"
	// fast symbolic links (target inside the inode) that nevertheless own a block: an extended attribute too large for the inode
	t.links["fast44x"] = strings.Repeat("d", 44)
	t.links["fast59x"] = strings.Repeat("e", 59)
	for _, d := range t.dirs {
		if err := os.MkdirAll(filepath.Join(dir, d), 0o755); err != nil {
			return nil, err
		}
	}
	for p, b := range t.files {
		fp := filepath.Join(dir, p)
		f, err := os.Create(fp)
		if err != nil {
			return nil, err
		}
		// write only the non-zero 4 KiB blocks so that holes stay holes on the host file system
		for off := 0; off < len(b); off += 4096 {
			end := off + 4096
			if end > len(b) {
				end = len(b)
			}
			if !isZero(b[off:end]) {
				if _, err := f.WriteAt(b[off:end], int64(off)); err != nil {
					return nil, err
				}
			}
		}
		if err := f.Truncate(int64(len(b))); err != nil {
			return nil, err
		}
		f.Close()
	}
	for p, b := range hostOnly {
		if err := os.WriteFile(filepath.Join(dir, p), b, 0o644); err != nil {
			return nil, err
		}
	}
	for p, h := range t.huge {
		f, err := os.Create(filepath.Join(dir, p))
		if err != nil {
			return nil, err
		}
		for _, sg := range h.segs {
			if _, err := f.WriteAt(sg.data, sg.off); err != nil {
				return nil, err
			}
		}
		if err := f.Truncate(h.size); err != nil {
			return nil, err
		}
		f.Close()
	}
	for l, tg := range t.links {
		if err := os.Symlink(tg, filepath.Join(dir, l)); err != nil {
			return nil, err
		}
	}
	t.modes["attrs.bin"] = 0o4751
	t.modes["sub"] = 0o1777
	t.owners["attrs.bin"] = [2]uint32{100000, 1000}
	t.owners["plain.txt"] = [2]uint32{65536, 131072}
	t.owners["sub"] = [2]uint32{7, 70000}
	t.mtimes["attrs.bin"] = 2147483648 + 12345 // after 2038: needs the extra epoch bits
	t.mtimes["plain.txt"] = 1
	t.xattrs["xattr-inode.bin"] = map[string]string{"user.small": "v1"}
	t.xattrs["xattr-block.bin"] = map[string]string{"user.big": strings.Repeat("X", 900), "user.second": "two"}
	t.xattrs["fast44x"] = map[string]string{"trusted.big": strings.Repeat("Y", 700)}
	t.xattrs["fast59x"] = map[string]string{"trusted.big": strings.Repeat("Z", 700)}
	hostTrees.m[kind] = t
	return t, nil
}

func isZero(b []byte) bool {
	for _, x := range b {
		if x != 0 {
			return false
		}
	}
	return true
}

func runCmd(name string, args ...string) (string, error) {
	out, err := exec.Command(name, args...).CombinedOutput()
	return string(out), err
}

func runMkfsCase(c *mkfsCase) (sig, msg, outcome string) {
	t, err := buildHostTree(c.Tree)
	if err != nil {
		return "", "", "host-tree:" + errShape(err.Error())
	}
	base := os.Getenv("VERIF_SCRATCH")
	if base == "" {
		base = os.TempDir()
	}
	img := filepath.Join(base, fmt.Sprintf("c20-%d.img", e2seq.Add(1)))
	defer os.Remove(img)
	size := "24M"
	if c.Tree == "deep-htree" {
		size = "40M"
	}
	if c.Tree == "special" {
		size = "32M"
	}
	rootOwner := "root_owner=0:0"
	if c.Tree == "maxextent" {
		size = "64M"
		rootOwner += ",num_backup_sb=0" // with sparse_super2: no backup superblocks, the free space is one contiguous run
	}
	if c.Tree == "contig66" {
		size = "128M"
		rootOwner += ",num_backup_sb=0"
	}
	feats := append([]string{}, c.Features...)
	fstype := "ext4"
	if c.FSType == "ext2-style" {
		feats = append(feats, "^extent", "^flex_bg", "^64bit", "^metadata_csum", "^huge_file", "^has_journal")
	}
	args := []string{"-q", "-F", "-t", fstype, "-b", fmt.Sprint(c.BlockSize), "-I", fmt.Sprint(c.InodeSize), "-E", rootOwner, "-d", t.dir}
	if len(feats) > 0 {
		args = append(args, "-O", strings.Join(feats, ","))
	}
	args = append(args, img, size)
	if out, err := runCmd("/usr/sbin/mke2fs", args...); err != nil {
		return "", "", "mke2fs-refused:" + errShape(out)
	}
	// attributes and xattrs through debugfs
	var script []string
	for p, m := range t.modes {
		kind := uint32(0o100000)
		if p == "sub" {
			kind = 0o040000
		}
		script = append(script, fmt.Sprintf("sif /%s mode 0%o", p, kind|m))
	}
	for p, o := range t.owners {
		script = append(script, fmt.Sprintf("sif /%s uid %d", p, o[0]), fmt.Sprintf("sif /%s gid %d", p, o[1]))
	}
	if c.InodeSize >= 256 {
		for p, m := range t.mtimes {
			script = append(script, fmt.Sprintf("sif /%s mtime @%d", p, m))
		}
	} else {
		script = append(script, "sif /plain.txt mtime @1")
	}
	for p, xs := range t.xattrs {
		for k, v := range xs {
			script = append(script, fmt.Sprintf("ea_set /%s %s %s", p, k, v))
		}
	}
	sort.Strings(script)
	sf := img + ".cmd"
	_ = os.WriteFile(sf, []byte(strings.Join(script, "\n")+"\n"), 0o600)
	defer os.Remove(sf)
	if out, err := runCmd("/usr/sbin/debugfs", "-w", "-f", sf, img); err != nil {
		return "", "", "debugfs-failed:" + errShape(out)
	}
	hasDirIndex := true
	for _, f := range feats {
		if f == "^dir_index" {
			hasDirIndex = false
		}
	}
	if hasDirIndex {
		_, _ = runCmd("/usr/sbin/e2fsck", "-f", "-y", "-D", img) // converts the big directory into a hash tree
	}
	if c.Tree == "maxextent" {
		_, _ = runCmd("/usr/sbin/e2fsck", "-f", "-y", "-E", "bmap2extent", img) // rebuilds the extent trees, merging neighbours
	}
	if len(t.removed) > 0 {
		var rm []string
		for _, p := range t.removed {
			rm = append(rm, "rm /"+p)
		}
		_ = os.WriteFile(sf, []byte(strings.Join(rm, "\n")+"\n"), 0o600)
		if out, err := runCmd("/usr/sbin/debugfs", "-w", "-f", sf, img); err != nil {
			return "", "", "debugfs-failed:" + errShape(out)
		}
	}
	if out, err := runCmd("/usr/sbin/e2fsck", "-f", "-n", img); err != nil {
		return "", "", "reference-image-not-clean:" + errShape(out)
	}
	raw, err := os.ReadFile(img)
	if err != nil {
		return "", "", "io"
	}
	d := memdev.New(int64(len(raw)))
	d.Poke(raw, 0)
	d.ReadBudget = 3000000 // a reader that keeps reading forever gets an error instead of hanging the check
	tag := fmt.Sprintf("bs=%d|%s", c.BlockSize, c.FSType)
	var fs *ext4.FileSystem
	var oerr error
	if pm := guard(func() { fs, oerr = ext4.Read(be(d, true), int64(len(raw)), 0, 512) }); pm != "" {
		return "read|" + pm, "ext4.Read panicked on a reference image: " + pm, "panic"
	}
	if oerr != nil {
		return "", "", "refused-image:" + errShape(oerr.Error())
	}
	// walk
	seenFiles := map[string]bool{}
	seenDirs := map[string]bool{}
	var firstErr string
	var verdict, verdictMsg string
	fail := func(s, m string) {
		if verdict == "" {
			verdict, verdictMsg = s, m
		}
	}
	pm := guard(func() {
		_ = iofs.WalkDir(fs, ".", func(p string, de iofs.DirEntry, err error) error {
			if err != nil {
				if firstErr == "" {
					firstErr = errShape(err.Error())
				}
				if de != nil && de.IsDir() {
					return iofs.SkipDir
				}
				return nil
			}
			if p == "." || p == "lost+found" {
				return nil
			}
			if de.IsDir() {
				seenDirs[p] = true
				return nil
			}
			fi, serr := fs.Stat(p)
			if serr != nil {
				return nil // an error is acceptable
			}
			if tg, isLink := t.links[p]; isLink {
				got, e := fs.ReadLink(p)
				if e == nil && got != tg {
					fail("link-target|"+tag, fmt.Sprintf("symlink %s (%d bytes) reads as %q (%d bytes)", p, len(tg), clip(got), len(got)))
				}
				if fi.Mode()&os.ModeSymlink == 0 {
					fail("kind|"+tag, fmt.Sprintf("symlink %s is reported with mode %v", p, fi.Mode()))
				}
				seenFiles[p] = true
				return nil
			}
			if h, isHuge := t.huge[p]; isHuge {
				seenFiles[p] = true
				if fi.Size() != h.size {
					fail("size|"+tag+"|huge", fmt.Sprintf("%s: size %d, put in %d", p, fi.Size(), h.size))
				}
				f, e := fs.OpenFile(p, os.O_RDONLY)
				if e != nil {
					return nil
				}
				defer f.Close()
				// probe windows: around every segment (the hole in front of it, the data, the hole behind it), and the tail
				var probes [][2]int64
				for _, sg := range h.segs {
					for _, o := range []int64{sg.off - 8192, sg.off - 1000, sg.off, sg.off + int64(len(sg.data)) - 100} {
						if o >= 0 {
							probes = append(probes, [2]int64{o, 12288})
						}
					}
				}
				probes = append(probes, [2]int64{h.size - 5000, 5000}, [2]int64{1 << 32, 4096}, [2]int64{1<<32 - 4096, 8192}, [2]int64{1 << 31, 4096})
				for _, pr := range probes {
					n := int(pr[1])
					if pr[0]+int64(n) > h.size {
						n = int(h.size - pr[0])
					}
					if _, e := f.Seek(pr[0], io.SeekStart); e != nil {
						continue
					}
					buf := make([]byte, n)
					k, e := io.ReadFull(f, buf)
					if e != nil {
						continue // an error is acceptable
					}
					if want := h.expect(pr[0], n); k != n || !bytes.Equal(buf, want) {
						fail("content|"+tag+"|huge-sparse", fmt.Sprintf("%s: %d bytes read at offset %d without error differ from what was put in (first difference at +%d)", p, n, pr[0], firstDiff(buf, want)))
					}
				}
				return nil
			}
			want, known := t.files[p]
			if !known {
				fail("extra-entry|"+tag, "the library lists "+p+" which was never put in")
				return nil
			}
			seenFiles[p] = true
			if fi.Size() != int64(len(want)) {
				fail("size|"+tag, fmt.Sprintf("%s: size %d, put in %d", p, fi.Size(), len(want)))
			}
			b, rerr := fs.ReadFile(p)
			if rerr == nil && !bytes.Equal(b, want) {
				cls := "content"
				if len(b) != len(want) {
					cls = "content-length"
				}
				where := -1
				for i := 0; i < len(b) && i < len(want); i++ {
					if b[i] != want[i] {
						where = i
						break
					}
				}
				fail(cls+"|"+tag+"|"+fileClass(p), fmt.Sprintf("%s: %d bytes read without error, %d put in, first difference at %d", p, len(b), len(want), where))
			}
			// the same file through ONE handle that jumps around: the last third first, then back to the start, then the
			// middle (files of several extents: a handle that remembers where it was must still find earlier extents)
			if rerr == nil && len(want) > 3*4096 && len(want) < 16<<20 {
				if f, e := fs.OpenFile(p, os.O_RDONLY); e == nil {
					third := int64(len(want) / 3)
					for _, seg := range [][2]int64{{2 * third, int64(len(want)) - 2*third}, {0, third}, {third - 100, third + 200}, {0, 50}} {
						buf := make([]byte, seg[1])
						if _, e := f.Seek(seg[0], io.SeekStart); e != nil {
							break
						}
						n, e := io.ReadFull(f, buf)
						if e != nil && e != io.EOF && e != io.ErrUnexpectedEOF {
							break // an error is always acceptable
						}
						if n == len(buf) && !bytes.Equal(buf, want[seg[0]:seg[0]+seg[1]]) {
							fail("content-after-seek|"+tag+"|"+fileClass(p), fmt.Sprintf("%s: %d bytes read at offset %d through a handle that had read elsewhere before differ from what was put in (first difference at +%d)", p, n, seg[0], firstDiff(buf, want[seg[0]:seg[0]+seg[1]])))
							break
						}
					}
					f.Close()
				}
			}
			if m, ok := t.modes[p]; ok && modeBits(fi.Mode()) != m {
				fail("mode|"+tag, fmt.Sprintf("%s: mode %o, set to %o", p, modeBits(fi.Mode()), m))
			}
			if st, ok := fi.Sys().(*ext4.StatT); ok && st != nil {
				if o, ok := t.owners[p]; ok && (st.UID != o[0] || st.GID != o[1]) {
					fail("owner|"+tag, fmt.Sprintf("%s: owner %d:%d, set to %d:%d", p, st.UID, st.GID, o[0], o[1]))
				}
			}
			if mt, ok := t.mtimes[p]; ok && (c.InodeSize >= 256 || mt == 1) && fi.ModTime().Unix() != mt {
				fail("mtime|"+tag+fmt.Sprintf("|isize=%d", c.InodeSize), fmt.Sprintf("%s: mtime %d, set to %d", p, fi.ModTime().Unix(), mt))
			}
			if xs, ok := t.xattrs[p]; ok {
				got, xerr := fs.GetXattr(p)
				if xerr == nil {
					for k, v := range xs {
						if string(got[k]) != v {
							fail("xattr|"+tag, fmt.Sprintf("%s: xattr %s reads as %d bytes, set to %d bytes", p, k, len(got[k]), len(v)))
						}
					}
				}
			}
			return nil
		})
		// directories' own attributes
		for p, m := range t.modes {
			if p == "sub" {
				if fi, e := fs.Stat(p); e == nil && modeBits(fi.Mode()) != m {
					fail("mode|"+tag, fmt.Sprintf("%s: mode %o, set to %o", p, modeBits(fi.Mode()), m))
				}
			}
		}
	})
	if pm != "" {
		return "walk|" + tag + "|" + pm, "walking a reference image panicked: " + pm, "panic"
	}
	if d.Exceeded {
		return "endless-reading|" + tag, fmt.Sprintf("walking a %d-byte reference image issued more than %d device reads", len(raw), d.ReadBudget), "loop"
	}
	if verdict != "" {
		return verdict, verdictMsg, "wrong-data"
	}
	if firstErr != "" {
		return "", "", "error:" + firstErr // an error is always acceptable
	}
	// silently missing entries are wrong data too (only when the walk reported no error at all)
	for p := range t.files {
		if !seenFiles[p] {
			return "missing-entry|" + tag + "|" + fileClass(p), p + " was put in but is not listed, and no error was reported", "wrong-data"
		}
	}
	for p := range t.huge {
		if !seenFiles[p] {
			return "missing-entry|" + tag + "|huge", p + " was put in but is not listed, and no error was reported", "wrong-data"
		}
	}
	for p := range t.links {
		if !seenFiles[p] {
			return "missing-entry|" + tag + "|symlink", p + " was put in but is not listed, and no error was reported", "wrong-data"
		}
	}
	for _, dd := range t.dirs {
		if !seenDirs[dd] {
			return "missing-dir|" + tag, dd + " is not listed", "wrong-data"
		}
	}
	return "", "", "ok"
}

func fileClass(p string) string {
	switch {
	case strings.HasPrefix(p, "contig66"):
		return "contiguous-66MiB"
	case strings.HasPrefix(p, "maxextent"):
		return "max-length-extent"
	case strings.HasPrefix(p, "holes/"):
		return "dir-with-removed-entries"
	case strings.HasPrefix(p, "bigdir/"):
		return "bigdir"
	case strings.HasPrefix(p, "frag"):
		return "fragmented"
	case strings.HasPrefix(p, "sparse"):
		return "sparse"
	case strings.HasPrefix(p, "stride"):
		return "strided-sparse"
	}
	return "plain"
}

func enumC20(quick bool) []mkfsCase {
	feats := []string{"64bit", "flex_bg", "metadata_csum", "dir_index", "huge_file", "sparse_super2", "has_journal"}
	var cs []mkfsCase
	for _, bs := range []int{1024, 2048, 4096} {
		for _, is := range []int{128, 256} {
			for mask := 0; mask < 1<<len(feats); mask++ {
				if quick {
					// quick: all-on, all-off, each single feature off, each single feature on
					ones := 0
					for i := range feats {
						if mask&(1<<i) != 0 {
							ones++
						}
					}
					if !(ones == 0 || ones == len(feats) || ones == 1 || ones == len(feats)-1) || (bs == 2048 && ones != len(feats)) || (is == 128 && bs != 1024) {
						continue
					}
				}
				var fl []string
				for i, f := range feats {
					if mask&(1<<i) != 0 {
						fl = append(fl, f)
					} else {
						fl = append(fl, "^"+f)
					}
				}
				cs = append(cs, mkfsCase{BlockSize: bs, InodeSize: is, Features: fl, FSType: "ext4", Tree: "std"})
			}
			cs = append(cs, mkfsCase{BlockSize: bs, InodeSize: is, FSType: "ext2-style", Tree: "std"})
		}
	}
	// a sparse file beyond 4 GiB and a directory with removed entries in front of live ones (hashed and linear; plus a contiguous 32 MiB file that e2fsck -E bmap2extent turns into one extent of the maximum length 32768)
	for _, bs := range []int{1024, 4096} {
		cs = append(cs, mkfsCase{BlockSize: bs, InodeSize: 256, Features: []string{"metadata_csum", "dir_index"}, FSType: "ext4", Tree: "special"})
		cs = append(cs, mkfsCase{BlockSize: bs, InodeSize: 256, Features: []string{"metadata_csum", "^dir_index"}, FSType: "ext4", Tree: "special"})
	}
	// one extent of the maximum length (32768 blocks)
	cs = append(cs, mkfsCase{BlockSize: 1024, InodeSize: 256, Features: []string{"metadata_csum", "sparse_super2", "^has_journal"}, FSType: "ext4", Tree: "maxextent"})
	cs = append(cs, mkfsCase{BlockSize: 1024, InodeSize: 256, Features: []string{"metadata_csum", "sparse_super2", "^has_journal", "^resize_inode"}, FSType: "ext4", Tree: "contig66"})
	// a directory large enough for a hash tree with an interior level
	cs = append(cs, mkfsCase{BlockSize: 1024, InodeSize: 256, Features: []string{"dir_index"}, FSType: "ext4", Tree: "deep-htree"})
	if !quick {
		cs = append(cs, mkfsCase{BlockSize: 1024, InodeSize: 128, Features: []string{"dir_index", "^metadata_csum"}, FSType: "ext4", Tree: "deep-htree"})
	}
	return cs
}

func C20(r *ev.Run) {
	cases := enumC20(r.Quick())
	outcomes := newDistinct()
	ok := newDistinct()
	done := parallel(len(cases), r.OutOfTime, func(i int) {
		c := &cases[i]
		sig, msg, out := runMkfsCase(c)
		outcomes.add(strings.SplitN(out, ":", 2)[0])
		if out == "ok" || strings.HasPrefix(out, "error") || strings.HasPrefix(out, "refused-image") {
			b, _ := json.Marshal(c)
			ok.add(string(b))
		}
		if sig != "" {
			r.Report("c20|"+sig, msg, c)
		}
		if i%(len(cases)/6+1) == 0 {
			r.Sample(c)
		}
	})
	r.Set("evaluations", int64(done))
	r.Set("distinct_nontrivial", int64(ok.n()))
	r.Set("distinct_outcomes", outcomes.snapshot())
	r.Set("rule", "images built by the reference tools: a host tree (400-entry directory turned into a hash tree by e2fsck -fD, a file of 200 alternating data/hole blocks, a file of 130 data blocks at a stride of 16 blocks (index root, holes much wider than the data), a file behind a 1 MiB hole, plain files, symlinks of 59/60/200 bytes and a relative one, in-inode and block xattrs via debugfs ea_set, odd modes/owners with different upper halves/post-2038 times via debugfs sif; plus a 2000-entry directory of 180-character names whose hash tree has an interior level; plus a tree with a sparse file of 4 GiB+40 KiB (data at 0 and just beyond 4 GiB, read through probe windows in and around the holes) and a 200-entry directory from which a run of 80 neighbouring entries was removed with debugfs rm after indexing, hashed and linear; plus a contiguous 32 MiB file that e2fsck -E bmap2extent turns into one extent of the maximum length 32768; plus a contiguous file of 66 MiB on 1 KiB blocks: more than 65535 blocks in neighbouring maximum-length extents) written by mke2fs -d for block size {1K,2K,4K} x inode size {128,256} x every subset (quick: all-on, all-off, single-on, single-off) of {64bit, flex_bg, metadata_csum, dir_index, huge_file, sparse_super2, has_journal} plus ext2-style images without extents; each image verified clean with e2fsck first. The library must refuse the image, return an error for what it cannot read, or report exactly what was put in: tree, bytes (holes as zeros), sizes, modes, owners, times, link targets, xattrs. non-trivial = distinct images that mke2fs accepted and that the library opened, refused or walked")
	r.Set("exhaustive", done == len(cases))
	r.Assume("e2fsprogs 1.47.0 builds the reference images; a refusal or an error is always acceptable, only silent wrong data is a violation")
}
