package checks

import (
	"bytes"
	"encoding/binary"
	"encoding/gob"
	"fmt"
	"hash/crc32"
	iofs "io/fs"
	"os"
	"sort"
	"strings"
	"time"

	"github.com/diskfs/go-diskfs/filesystem"
	"github.com/diskfs/go-diskfs/filesystem/ext4"
	"github.com/diskfs/go-diskfs/filesystem/iso9660"
	"github.com/diskfs/go-diskfs/filesystem/squashfs"

	"verifmc/ev"
	"verifmc/memdev"
	"verifmc/oracle/fatck"
)

func init() {
	register("C18", "fault_enumeration", C18)
	corruptTargets["c18"] = func(quick bool) corruptTarget { return newC18Target(quick) }
	Replayers["C18"] = replayCorrupt
}

type c18Base struct {
	CleanAlloc uint64   // bytes allocated by walking the undamaged image
	CleanReads int64    // device reads issued by walking the undamaged image
	Kind       string   // how to open: fat12 fat16 fat32 ext4 iso squashfs
	Boundary   []uint32 // format-specific boundary values tried as 16/32-bit little-endian words (FAT: cluster-number limits)
	HasFix     bool
	Name       string
	Dev        *memdev.Dev
	Start      int64
	Size       int64
	Open       func(d *memdev.Dev) (filesystem.FileSystem, error)
	Fix        func(d *memdev.Dev, off int64) // optional checksum fix-up after a patch at off
}

type c18Case struct {
	// compact: the thorough tier enumerates more than a million cases, and every worker process holds the list
	Base uint8
	Fix  bool
	Lbl  uint8 // 0 byte, 1 byte+csum, 2 cluster-limit, 3 le16, 4 le32, 5 FAT entry := another used cluster
	Len  uint8
	Off  int64
	Data [4]byte
}

type c18PatchView struct {
	Off  int64
	Data []byte
}

// Patch gives the (offset, bytes) view of the case.
func (c *c18Case) patch() c18PatchView { return c18PatchView{c.Off, c.Data[:c.Len]} }

func mkC18Case(base int, off int64, data []byte, fix bool, lbl uint8) c18Case {
	c := c18Case{Base: uint8(base), Fix: fix, Lbl: lbl, Len: uint8(len(data)), Off: off}
	copy(c.Data[:], data)
	return c
}

type c18Target struct {
	bases []c18Base
	cases []c18Case
}

func c18Tree() *treeSpec {
	return &treeSpec{Dirs: []string{"sub", "sub/deeper"}, Files: map[string][]byte{
		"A.TXT": patternBytes(1, 10), "a-long-file-name-for-lfn.txt": patternBytes(2, 700), "sub/multi.bin": patternBytes(3, 2500), "sub/deeper/x": patternBytes(4, 1), "empty": nil}}
}

func buildC18Bases(quick bool) []c18Base {
	var out []c18Base
	tree := c18Tree()
	// FAT
	for _, cfg := range []fatCfg{{Type: 12, Size: 64 << 10}, {Type: 32, Size: 64 << 10}, {Type: 16, Size: 4400 << 10}} {
		cfg := cfg
		s, err := newFatSys(cfg, "none")
		if err != nil {
			panic(err)
		}
		for _, d := range tree.Dirs {
			if err := s.fs.Mkdir(d); err != nil {
				panic(err)
			}
		}
		for _, p := range tree.sortedFiles() {
			f, err := s.fs.OpenFile(p, os.O_CREATE|os.O_RDWR)
			if err != nil {
				panic(err)
			}
			if len(tree.Files[p]) > 0 {
				if _, err := f.Write(tree.Files[p]); err != nil {
					panic(err)
				}
			}
			f.Close()
		}
		s.dev.Allowed = nil
		// cluster-number limits: the number of FAT slots and the number of data clusters (+2), each -1/0/+1
		var bnd []uint32
		if ck := fatck.Check(s.dev, 0, cfg.Size, cfg.Type); ck != nil && ck.FATBytes > 0 {
			slots := uint32(ck.FATBytes * 8 / int64(cfg.Type))
			for _, n := range []uint32{slots, ck.Clusters + 2} {
				bnd = append(bnd, n-1, n, n+1)
			}
		}
		out = append(out, c18Base{Name: cfg.String(), Kind: fmt.Sprintf("fat%d", cfg.Type), Dev: s.dev, Size: cfg.Size, Boundary: bnd})
	}
	// ext4 with and without metadata checksums, plus a multi-extent file and fast/slow symlinks
	for _, nocsum := range []bool{true, false} {
		t := c18Tree()
		t.Links = map[string]string{"fast": "A.TXT", "slow": "sub/" + string(patternBytes(9, 70))}
		img, fs, err := buildExt4(t, 1<<20, 0, ext4SmallParams(2, !nocsum))
		if err != nil {
			panic(err)
		}
		// six extents: two files appended alternately
		a, _ := fs.OpenFile("frag-a", os.O_CREATE|os.O_RDWR|os.O_APPEND)
		b, _ := fs.OpenFile("frag-b", os.O_CREATE|os.O_RDWR|os.O_APPEND)
		for i := 0; i < 6; i++ {
			_, _ = a.Write(patternBytes(20+i, 1025))
			_, _ = b.Write(patternBytes(40+i, 1024))
		}
		// exactly four extents each: the extent header in the inode is full (entries == max)
		c4, _ := fs.OpenFile("four-a", os.O_CREATE|os.O_RDWR|os.O_APPEND)
		d4, _ := fs.OpenFile("four-b", os.O_CREATE|os.O_RDWR|os.O_APPEND)
		for i := 0; i < 4; i++ {
			_, _ = c4.Write(patternBytes(60+i, 1025))
			_, _ = d4.Write(patternBytes(70+i, 1024))
		}
		name := "ext4-1MiB"
		if nocsum {
			name += "-nocsum"
		}
		base := c18Base{Name: name, Kind: "ext4", Dev: img.Dev, Size: img.Size, HasFix: !nocsum}
		if base.HasFix {
			// self-calibration: the independent checksum must reproduce the stored one on the clean image
			sb := img.Dev.Peek(1024, 1024)
			if binary.LittleEndian.Uint32(sb[1020:]) != crc32cExt4(sb[:1020]) {
				base.HasFix = false
			}
		}
		out = append(out, base)
	}
	// ISO9660
	for _, o := range []struct {
		n  string
		rr bool
		jo bool
	}{{"iso-plain", false, false}, {"iso-rr", true, false}, {"iso-rr-joliet", true, true}} {
		if quick && o.n == "iso-rr-joliet" {
			continue
		}
		img, err := buildISO(tree, iso9660.FinalizeOptions{RockRidge: o.rr, Joliet: o.jo}, 2048, 0)
		if err != nil {
			panic(err)
		}
		out = append(out, c18Base{Name: o.n, Kind: "iso", Dev: img.Dev, Size: img.Size})
	}
	// squashfs
	for _, o := range []struct {
		n    string
		opts squashfs.FinalizeOptions
	}{{"squashfs-gzip", squashfs.FinalizeOptions{Compression: &squashfs.CompressorGzip{CompressionLevel: 9}}}, {"squashfs-nocompress", squashfs.FinalizeOptions{NoCompressInodes: true, NoCompressData: true, NoCompressFragments: true}}} {
		t := c18Tree()
		t.Links = map[string]string{"lnk": "A.TXT"}
		if o.n == "squashfs-nocompress" {
			t.Dirs = append(t.Dirs, "many")
			nmany := 300
			if quick {
				nmany = 40
			}
			for i := 0; i < nmany; i++ {
				t.Files[fmt.Sprintf("many/e%03d", i)] = patternBytes(i, i%3)
			}
		}
		img, err := buildSquash(t, o.opts, 4096, 0)
		if err != nil {
			panic(err)
		}
		out = append(out, c18Base{Name: o.n, Kind: "squashfs", Dev: img.Dev, Size: img.Size})
	}
	for i := range out {
		out[i].bind()
	}
	return out
}

// bind installs the open / checksum fix-up functions for the base's kind.
func (b *c18Base) bind() {
	sz := b.Size
	switch b.Kind {
	case "fat12", "fat16", "fat32":
		cfg := fatCfg{Size: sz}
		fmt.Sscanf(b.Kind, "fat%d", &cfg.Type)
		b.Open = func(d *memdev.Dev) (filesystem.FileSystem, error) { return fatRead(cfg, d, true) }
	case "ext4":
		b.Open = func(d *memdev.Dev) (filesystem.FileSystem, error) { return ext4.Read(be(d, true), sz, 0, 512) }
		if b.HasFix {
			b.Fix = func(d *memdev.Dev, off int64) {
				if off >= 1024 && off < 2048 {
					// superblock checksum: crc32c over the first 1020 bytes, stored little-endian at 0x3FC
					sb := d.Peek(1024, 1024)
					binary.LittleEndian.PutUint32(sb[1020:], crc32cExt4(sb[:1020]))
					d.Poke(sb[1020:], 1024+1020)
				}
			}
		}
	case "iso":
		b.Open = func(d *memdev.Dev) (filesystem.FileSystem, error) { return iso9660.Read(be(d, true), sz, 0, 2048) }
	case "squashfs":
		b.Open = func(d *memdev.Dev) (filesystem.FileSystem, error) { return squashfs.Read(be(d, true), sz, 0, 4096) }
	}
}

type c18Snap struct {
	Bases []struct {
		Name, Kind string
		Size       int64
		HasFix     bool
		CleanAlloc uint64
		CleanReads int64
		Image      memdev.Image
	}
	Cases []c18Case
}

func (t *c18Target) Snapshot() ([]byte, error) {
	var sn c18Snap
	for _, b := range t.bases {
		sn.Bases = append(sn.Bases, struct {
			Name, Kind string
			Size       int64
			HasFix     bool
			CleanAlloc uint64
			CleanReads int64
			Image      memdev.Image
		}{b.Name, b.Kind, b.Size, b.HasFix, b.CleanAlloc, b.CleanReads, b.Dev.Export()})
	}
	sn.Cases = t.cases
	var buf bytes.Buffer
	err := gob.NewEncoder(&buf).Encode(&sn)
	return buf.Bytes(), err
}

func init() {
	corruptRestore["c18"] = func(raw []byte, quick bool) (corruptTarget, error) {
		var sn c18Snap
		if err := gob.NewDecoder(bytes.NewReader(raw)).Decode(&sn); err != nil {
			return nil, err
		}
		t := &c18Target{cases: sn.Cases}
		for _, b := range sn.Bases {
			nb := c18Base{Name: b.Name, Kind: b.Kind, Size: b.Size, HasFix: b.HasFix, CleanAlloc: b.CleanAlloc, CleanReads: b.CleanReads, Dev: memdev.FromImage(b.Image)}
			nb.bind()
			t.bases = append(t.bases, nb)
		}
		return t, nil
	}
}

// crc32cExt4 is ext4's crc32c: seed ~0, no final inversion.
func crc32cExt4(b []byte) uint32 {
	return ^crc32.Checksum(b, crc32.MakeTable(crc32.Castagnoli)) // Go's Checksum inverts at the end; ext4 does not
}

// walkAll opens the image, lists every directory and reads every file.
func walkAll(b *c18Base, d *memdev.Dev, readFiles bool) (n int, err error) {
	fs, err := b.Open(d)
	if err != nil {
		return 0, err
	}
	var firstErr error
	depth := 0
	err = iofs.WalkDir(fs, ".", func(p string, de iofs.DirEntry, e error) error {
		n++
		if n > 20000 {
			return fmt.Errorf("more than 20000 entries")
		}
		if e != nil {
			if firstErr == nil {
				firstErr = e
			}
			if de != nil && de.IsDir() {
				return iofs.SkipDir
			}
			return nil
		}
		depth++
		if de.IsDir() {
			// a damaged image may contain a directory cycle: like any careful walker, stop descending at a depth
			// no legitimate tree of these images has
			if strings.Count(p, "/") > 24 {
				if firstErr == nil {
					firstErr = fmt.Errorf("directory nesting deeper than 24 levels at %s", p[:40])
				}
				return iofs.SkipDir
			}
			return nil
		}
		if _, ie := de.Info(); ie != nil && firstErr == nil {
			firstErr = ie
		}
		if readFiles && de.Type()&os.ModeSymlink == 0 {
			f, oe := fs.OpenFile(p, os.O_RDONLY)
			if oe != nil {
				if firstErr == nil {
					firstErr = oe
				}
				return nil
			}
			if _, re := readAllFile(f, 8<<20); re != nil && firstErr == nil {
				firstErr = re
			}
			_ = f.Close()
		}
		return nil
	})
	if err == nil {
		err = firstErr
	}
	return n, err
}

func mergeRanges(rs []memdev.Range, limit int64) []memdev.Range {
	sort.Slice(rs, func(i, j int) bool { return rs[i].Lo < rs[j].Lo })
	var m []memdev.Range
	for _, r := range rs {
		if r.Hi > limit {
			r.Hi = limit
		}
		if r.Hi <= r.Lo {
			continue
		}
		if len(m) > 0 && r.Lo <= m[len(m)-1].Hi {
			if r.Hi > m[len(m)-1].Hi {
				m[len(m)-1].Hi = r.Hi
			}
			continue
		}
		m = append(m, r)
	}
	return m
}

func newC18Target(quick bool) *c18Target {
	t := &c18Target{bases: buildC18Bases(quick)}
	for bi := range t.bases {
		b := &t.bases[bi]
		// phase 1: open + listing = metadata; phase 2: file reads add extent trees, FAT chains, fragment tables ...
		d1 := b.Dev.Clone()
		d1.TrackReads = true
		_, _ = walkAll(b, d1, false)
		meta := mergeRanges(d1.ReadRanges, b.Size)
		d2 := b.Dev.Clone()
		d2.TrackReads = true
		a0 := allocBytes()
		_, _ = walkAll(b, d2, true)
		b.CleanAlloc = allocBytes() - a0
		b.CleanReads = d2.Reads
		all := mergeRanges(d2.ReadRanges, b.Size)
		inMeta := func(o int64) bool {
			for _, r := range meta {
				if o >= r.Lo && o < r.Hi {
					return true
				}
			}
			return false
		}
		for _, rg := range all {
			for o := rg.Lo; o < rg.Hi; o++ {
				if !inMeta(o) && (o-rg.Lo) >= 96 && rg.Hi-rg.Lo > 512 {
					// a range that only file reads touch: its head may be an extent/fragment structure, the rest is content
					continue
				}
				orig := b.Dev.Peek(o, 1)[0]
				// large all-zero metadata areas (unused FAT entries, empty directory slots): probe sparsely
				if orig == 0 && (quick && o%32 != 0 || !quick && o%8 != 0) {
					continue
				}
				// (orig+1: one more than what the field says - a count one above its capacity, a length one beyond its buffer)
				vals := []byte{0x00, 0x01, 0x7F, 0x80, 0xFF, orig ^ 0x01, orig ^ 0x80, orig + 1}
				if quick {
					vals = []byte{0x00, 0xFF, orig ^ 0x01, orig ^ 0x80, orig + 1}
				}
				seenV := map[byte]bool{orig: true}
				for _, v := range vals {
					if seenV[v] {
						continue
					}
					seenV[v] = true
					t.cases = append(t.cases, mkC18Case(bi, o, []byte{v}, false, 0))
					if b.Fix != nil && o >= 1024 && o < 2044 {
						t.cases = append(t.cases, mkC18Case(bi, o, []byte{v}, true, 1))
					}
				}
				if o%2 == 0 {
					for _, w := range []int{2, 4} {
						if o+int64(w) > rg.Hi || (quick && w == 2 && len(b.Boundary) == 0) || o%int64(w) != 0 {
							continue
						}
						for _, v := range b.Boundary {
							if w == 2 && v > 0xFFFF {
								continue
							}
							pat := make([]byte, 4)
							binary.LittleEndian.PutUint32(pat, v)
							if w == 2 || b.Kind == "fat32" {
								t.cases = append(t.cases, mkC18Case(bi, o, pat[:w], false, 2))
							}
						}
						for pi, pat := range lePatterns(w, b.Size) {
							if quick && pi != 1 && pi != 2 {
								continue
							}
							if pi == 4 || pi == 6 || pi == 7 || pi == 9 {
								continue // of the block-size neighbourhood (511..513, 4095..4097) only 512 and 4096 are used here
							}
							t.cases = append(t.cases, mkC18Case(bi, o, pat, false, uint8(2+w/2)))
						}
					}
				}
			}
		}
		// FAT images: every entry of the first allocation table that is in use takes the number of every other cluster that
		// is in use (a link back into its own chain, into the middle of another chain, to itself) - the values a byte-wise
		// pattern only hits by luck. Geometry is read from the boot sector of the clean image.
		if strings.HasPrefix(b.Kind, "fat") {
			var ft int
			fmt.Sscanf(b.Kind, "fat%d", &ft)
			bs := b.Dev.Peek(int64(0), 64)
			bps := int64(binary.LittleEndian.Uint16(bs[11:13]))
			reserved := int64(binary.LittleEndian.Uint16(bs[14:16]))
			fatSectors := int64(binary.LittleEndian.Uint16(bs[22:24]))
			if fatSectors == 0 {
				fatSectors = int64(binary.LittleEndian.Uint32(bs[36:40]))
			}
			if bps >= 512 && fatSectors > 0 {
				fat := b.Dev.Peek(int64(0)+reserved*bps, int(fatSectors*bps))
				entry := func(i int) uint32 {
					switch ft {
					case 12:
						v := uint32(binary.LittleEndian.Uint16(fat[i*3/2:]))
						if i%2 == 1 {
							return v >> 4
						}
						return v & 0xFFF
					case 16:
						return uint32(binary.LittleEndian.Uint16(fat[i*2:]))
					}
					return binary.LittleEndian.Uint32(fat[i*4:]) & 0x0FFFFFFF
				}
				n := len(fat) * 8 / map[int]int{12: 12, 16: 16, 32: 32}[ft]
				var used []int
				for i := 2; i < n && len(used) < 48; i++ {
					if v := entry(i); v >= 2 && v != map[int]uint32{12: 0xFF7, 16: 0xFFF7, 32: 0x0FFFFFF7}[ft] {
						used = append(used, i)
					}
				}
				for _, i := range used {
					for _, j := range used {
						if uint32(j) == entry(i) {
							continue
						}
						off := int64(0) + reserved*bps
						switch ft {
						case 12:
							o := int64(i * 3 / 2)
							cur := binary.LittleEndian.Uint16(fat[o:])
							var nv uint16
							if i%2 == 1 {
								nv = cur&0x000F | uint16(j)<<4
							} else {
								nv = cur&0xF000 | uint16(j)
							}
							pat := make([]byte, 2)
							binary.LittleEndian.PutUint16(pat, nv)
							t.cases = append(t.cases, mkC18Case(bi, off+o, pat, false, 5))
						case 16:
							pat := make([]byte, 2)
							binary.LittleEndian.PutUint16(pat, uint16(j))
							t.cases = append(t.cases, mkC18Case(bi, off+int64(i*2), pat, false, 5))
						default:
							pat := make([]byte, 4)
							binary.LittleEndian.PutUint32(pat, uint32(j))
							t.cases = append(t.cases, mkC18Case(bi, off+int64(i*4), pat, false, 5))
						}
					}
				}
			}
		}
	}
	return t
}

func (t *c18Target) Count(quick bool) int { return len(t.cases) }
func (t *c18Target) ImageOf(i int) string {
	n := t.bases[t.cases[i].Base].Name
	if k := indexByte(n, '/'); k > 0 {
		n = n[:k]
	}
	return n
}
func (t *c18Target) Describe(i int, quick bool) any {
	c := t.cases[i]
	return map[string]any{"image": t.bases[c.Base].Name, "offset": c.patch().Off, "bytes": fmt.Sprintf("%x", c.patch().Data), "was": fmt.Sprintf("%x", t.bases[c.Base].Dev.Peek(c.patch().Off, len(c.patch().Data))), "checksum_fixed": c.Fix}
}

func (t *c18Target) Run(i int, quick bool) corruptResult {
	c := t.cases[i]
	b := &t.bases[c.Base]
	d := b.Dev.Clone()
	d.Poke(c.patch().Data, c.patch().Off)
	if c.Fix && b.Fix != nil {
		b.Fix(d, c.patch().Off)
	}
	d.ReadBudget = 50*b.CleanReads + 20000
	a0 := allocBytes()
	var n int
	var err error
	pm := guard(func() { n, err = walkAll(b, d, true) })
	a1 := allocBytes()
	img := b.Name
	if i := indexByte(img, '/'); i > 0 {
		img = img[:i]
	}
	switch {
	case pm != "":
		return corruptResult{Sig: img + "|" + pm, Msg: fmt.Sprintf("%s with bytes %x at offset %d: %s", b.Name, c.patch().Data, c.patch().Off, pm), Outcome: "panic"}
	case d.Exceeded:
		return corruptResult{Sig: img + "|endless-reading", Msg: fmt.Sprintf("%s with bytes %x at offset %d: more than %d device reads while walking a %d-byte image", b.Name, c.patch().Data, c.patch().Off, d.ReadBudget, b.Size), Outcome: "loop"}
	}
	// out of proportion = far beyond both the image size and what walking the undamaged image needs
	limit := uint64(64*b.Size + 32<<20)
	if l2 := 8*b.CleanAlloc + 32<<20; l2 > limit {
		limit = l2
	}
	if a1-a0 > limit {
		return corruptResult{Sig: img + "|allocation", Msg: fmt.Sprintf("%s with bytes %x at offset %d: walking allocated %d bytes for a %d-byte image (bound %d)", b.Name, c.patch().Data, c.patch().Off, a1-a0, b.Size, limit), Outcome: "alloc"}
	}
	res := corruptResult{Outcome: "walked"}
	if err != nil {
		res.Outcome = "error"
		if n > 1 {
			res.Nontrivial = true // the image was opened and at least the root was listed before the damage was noticed
			res.Outcome = "error-late"
		}
	} else {
		res.Nontrivial = true
	}
	return res
}

func indexByte(s string, c byte) int {
	for i := 0; i < len(s); i++ {
		if s[i] == c {
			return i
		}
	}
	return -1
}

func C18(r *ev.Run) {
	if !r.Quick() && os.Getenv("VERIF_BUDGET_S") == "" {
		r.Deadline = time.Now().Add(55 * time.Minute) // about a million cases, many of which kill their worker
	}
	st, n := runCorrupt(r, "c18", "c18")
	r.Set("evaluations", st.done)
	r.Set("distinct_nontrivial", st.nontrivial)
	r.Set("cases_enumerated", int64(n))
	r.Set("distinct_outcomes", st.outcomes)
	r.Set("worker_deaths", int64(st.deaths))
	r.Set("rule", "base images built by the library: FAT12 64 KiB, FAT32 64 KiB, (thorough: FAT16 4.3 MiB), ext4 1 MiB with and without metadata checksums (directories, a six-extent file pair, fast and slow symlinks), ISO9660 plain / Rock Ridge / (thorough: RR+Joliet), squashfs gzip and uncompressed with a 300-entry directory; sites = every byte offset that opening, listing every directory and reading every file consumes (measured with a read-tracking device; ranges that only file reads touch contribute their first 96 bytes; zero bytes of large unused tables are probed every 8th/32nd byte); per site single-byte values {00,01,7F,80,FF,b^01,b^80} and little-endian 16/32-bit patterns {0, all-ones, max-signed, sign-bit, image size(+1) in bytes and sectors}; ext4 superblock sites additionally with the superblock crc32c recomputed. Each case runs in a worker process under RLIMIT_AS=2GiB with panic, process-death, read-budget (300000 reads) and allocation (64 x image + 32 MiB) oracles; non-trivial = the image was opened and at least the root listed")
	r.Set("exhaustive", st.done >= int64(n))
	r.Assume("a worker death or 120 s without progress is attributed to the case in flight and must reproduce twice on that single case")
}
