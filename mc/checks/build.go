package checks

import (
	"bytes"
	"fmt"
	"github.com/diskfs/go-diskfs/backend"
	"github.com/diskfs/go-diskfs/backend/file"
	"io"
	"os"
	"path/filepath"
	"sort"
	"strings"
	"time"

	"github.com/diskfs/go-diskfs/filesystem"
	"github.com/diskfs/go-diskfs/filesystem/ext4"
	"github.com/diskfs/go-diskfs/filesystem/iso9660"
	"github.com/diskfs/go-diskfs/filesystem/squashfs"

	"verifmc/memdev"
)

// treeSpec is a source tree: directories, regular files and symbolic links, by io/fs-style relative path.
type treeSpec struct {
	Dirs  []string          `json:"dirs,omitempty"`
	Files map[string][]byte `json:"-"`
	Sizes map[string]int    `json:"files,omitempty"` // for printing
	Links map[string]string `json:"links,omitempty"`
	Tag   string            `json:"tag,omitempty"` // named fixed shape: part of the violation signature
}

func (t *treeSpec) sortedFiles() []string {
	ks := make([]string, 0, len(t.Files))
	for k := range t.Files {
		ks = append(ks, k)
	}
	sort.Strings(ks)
	return ks
}

func (t *treeSpec) describe() map[string]any {
	sz := map[string]int{}
	for k, v := range t.Files {
		sz[k] = len(v)
	}
	return map[string]any{"dirs": t.Dirs, "files": sz, "links": t.Links}
}

// populateWorkspace writes the tree into an on-disk workspace directory.
func populateWorkspace(ws string, t *treeSpec) error {
	for _, d := range t.Dirs {
		if err := os.MkdirAll(filepath.Join(ws, d), 0o755); err != nil {
			return err
		}
	}
	for _, p := range t.sortedFiles() {
		if err := os.MkdirAll(filepath.Dir(filepath.Join(ws, p)), 0o755); err != nil {
			return err
		}
		if err := os.WriteFile(filepath.Join(ws, p), t.Files[p], 0o644); err != nil {
			return err
		}
	}
	for l, tg := range t.Links {
		if err := os.MkdirAll(filepath.Dir(filepath.Join(ws, l)), 0o755); err != nil {
			return err
		}
		if err := os.Symlink(tg, filepath.Join(ws, l)); err != nil {
			return err
		}
	}
	// fixed mtimes so images are reproducible
	mt := time.Unix(1700000000, 0)
	return filepath.Walk(ws, func(p string, info os.FileInfo, err error) error {
		if err != nil {
			return err
		}
		if info.Mode()&os.ModeSymlink == 0 {
			_ = os.Chtimes(p, mt, mt)
		}
		return nil
	})
}

type isoImage struct {
	Dev       *memdev.Dev
	Size      int64
	Start     int64
	Blocksize int64
}

func buildISO(t *treeSpec, opts iso9660.FinalizeOptions, blocksize, start int64) (img *isoImage, err error) {
	return buildISOWith(t, opts, blocksize, start, false)
}

// buildISOWith optionally arms the range monitor with [start, start+size); with the monitor armed the image is
// returned even when Finalize fails, so that the writes it issued can be inspected.
func buildISOWith(t *treeSpec, opts iso9660.FinalizeOptions, blocksize, start int64, monitor bool) (img *isoImage, err error) {
	var content int64
	for _, b := range t.Files {
		content += int64(len(b)) + 2*blocksize
	}
	size := int64(2<<20) + 2*content + int64(len(t.Dirs)+len(t.Files))*4*blocksize
	return buildISOSized(t, opts, blocksize, start, size, monitor)
}

// dirtyRange fills [lo,hi) with non-zero junk (not logged, not monitored): the range a filesystem is given held something
// else before - an older image, another filesystem. Whatever the new image needs to be zero it has to write itself.
func dirtyRange(d *memdev.Dev, lo, hi int64) {
	if os.Getenv("VERIF_NO_DIRTY") != "" {
		return // diagnosis only: lets a replay tell whether a finding depends on what the range held before
	}
	if hi-lo > 48<<20 {
		hi = lo + 48<<20
	}
	junk := bytes.Repeat([]byte{0xA5, 0x5A, 0xC3, 0x3C, 0x96}, 1<<16/5+1)[:1<<16]
	for off := lo; off < hi; off += int64(len(junk)) {
		k := int64(len(junk))
		if off+k > hi {
			k = hi - off
		}
		d.Poke(junk[:k], off)
	}
}

// highestWrite is the end of the highest byte range written to the device (from its event log).
func highestWrite(d *memdev.Dev) int64 {
	hi := int64(0)
	for _, e := range d.Events {
		if e.Kind == memdev.EvWrite && e.Off+int64(e.Len) > hi {
			hi = e.Off + int64(e.Len)
		}
	}
	return hi
}

// buildISOOnFile: the same, but on a regular file of the operating system (opened read-write, wrapped by file.New), so that
// whatever the library does differently when the backend is an *os.File is in the path. The finished file is loaded into
// a memdev (no write log) for the readers and oracles.
func buildISOOnFile(t *treeSpec, opts iso9660.FinalizeOptions, blocksize, start int64) (img *isoImage, err error) {
	var content int64
	for _, b := range t.Files {
		content += int64(len(b)) + 2*blocksize
	}
	size := int64(2<<20) + 2*content + int64(len(t.Dirs)+len(t.Files))*4*blocksize
	return onFile(start, size, func(b backend.Storage) error {
		fs, e := iso9660.Create(b, size, start, blocksize, "")
		if e != nil {
			return e
		}
		defer os.RemoveAll(fs.Workspace())
		if e = populateWorkspace(fs.Workspace(), t); e != nil {
			return e
		}
		return fs.Finalize(opts)
	}, func(d *memdev.Dev) *isoImage { return &isoImage{d, size, start, blocksize} })
}

func buildSquashOnFile(t *treeSpec, opts squashfs.FinalizeOptions, blocksize, start int64) (*sqImage, error) {
	var content int64
	for _, b := range t.Files {
		content += int64(len(b))
	}
	size := int64(1<<20) + 2*content + int64(len(t.Dirs)+len(t.Files)+len(t.Links))*512
	var out *sqImage
	_, err := onFile(start, size, func(b backend.Storage) error {
		fs, e := squashfs.Create(b, size, start, blocksize)
		if e != nil {
			return e
		}
		defer os.RemoveAll(fs.Workspace())
		if e = populateWorkspace(fs.Workspace(), t); e != nil {
			return e
		}
		return fs.Finalize(opts)
	}, func(d *memdev.Dev) *isoImage { out = &sqImage{d, size, start, blocksize}; return nil })
	return out, err
}

// onFile runs build against a junk-filled scratch file of start+size+64 KiB bytes and loads the result into a memdev; the
// bytes in front of start and behind start+size must come back as they were.
func onFile(start, size int64, build func(b backend.Storage) error, wrap func(d *memdev.Dev) *isoImage) (*isoImage, error) {
	dir := os.Getenv("VERIF_SCRATCH")
	if dir == "" {
		dir = os.TempDir()
	}
	f, err := os.CreateTemp(dir, "onfile-*.img")
	if err != nil {
		return nil, err
	}
	defer os.Remove(f.Name())
	defer f.Close()
	total := start + size + 64<<10
	pre := memdev.New(total)
	dirtyRange(pre, 0, total)
	before := pre.Bytes(0, total)
	if _, err = f.WriteAt(before, 0); err != nil {
		return nil, err
	}
	var berr error
	if pm := guard(func() { berr = build(file.New(f, false)) }); pm != "" {
		return nil, fmt.Errorf("%s", pm)
	}
	if berr != nil {
		return nil, berr
	}
	after := make([]byte, total)
	if _, err = f.ReadAt(after, 0); err != nil && err != io.EOF {
		return nil, err
	}
	if !bytes.Equal(after[:start], before[:start]) || !bytes.Equal(after[start+size:], before[start+size:]) {
		return nil, fmt.Errorf("OUTSIDE-RANGE: building on an OS file changed bytes in front of offset %d or behind offset %d", start, start+size)
	}
	d := memdev.New(total)
	d.Poke(after, 0)
	return wrap(d), nil
}

// buildISOSized: the range given to the filesystem is exactly [start, start+size).
func buildISOSized(t *treeSpec, opts iso9660.FinalizeOptions, blocksize, start, size int64, monitor bool) (img *isoImage, err error) {
	d := memdev.New(start + size + 64<<10)
	dirtyRange(d, start, start+size)
	d.LogEvents = true
	if monitor {
		d.Allowed = []memdev.Range{{Lo: start, Hi: start + size}}
	}
	var fs *iso9660.FileSystem
	if pm := guard(func() {
		fs, err = iso9660.Create(be(d, false), size, start, blocksize, "")
		if err != nil {
			return
		}
		defer os.RemoveAll(fs.Workspace())
		if err = populateWorkspace(fs.Workspace(), t); err != nil {
			return
		}
		err = fs.Finalize(opts)
	}); pm != "" {
		return nil, fmt.Errorf("%s", pm)
	}
	if err != nil && !monitor {
		return nil, err
	}
	return &isoImage{d, size, start, blocksize}, err
}

func (i *isoImage) open(ro bool) (filesystem.FileSystem, error) {
	return iso9660.Read(be(i.Dev, ro), i.Size, i.Start, i.Blocksize)
}

type sqImage struct {
	Dev       *memdev.Dev
	Size      int64
	Start     int64
	Blocksize int64
}

func buildSquash(t *treeSpec, opts squashfs.FinalizeOptions, blocksize, start int64) (img *sqImage, err error) {
	return buildSquashWith(t, opts, blocksize, start, false)
}

func buildSquashWith(t *treeSpec, opts squashfs.FinalizeOptions, blocksize, start int64, monitor bool) (img *sqImage, err error) {
	var content int64
	for _, b := range t.Files {
		content += int64(len(b))
	}
	size := int64(1<<20) + 2*content + int64(len(t.Dirs)+len(t.Files)+len(t.Links))*512
	return buildSquashSized(t, opts, blocksize, start, size, monitor)
}

// buildSquashSized: the range given to the filesystem is exactly [start, start+size).
func buildSquashSized(t *treeSpec, opts squashfs.FinalizeOptions, blocksize, start, size int64, monitor bool) (img *sqImage, err error) {
	d := memdev.New(start + size + 64<<10)
	dirtyRange(d, start, start+size)
	d.LogEvents = true
	if monitor {
		d.Allowed = []memdev.Range{{Lo: start, Hi: start + size}}
	}
	var fs *squashfs.FileSystem
	if pm := guard(func() {
		fs, err = squashfs.Create(be(d, false), size, start, blocksize)
		if err != nil {
			return
		}
		defer os.RemoveAll(fs.Workspace())
		if err = populateWorkspace(fs.Workspace(), t); err != nil {
			return
		}
		err = fs.Finalize(opts)
	}); pm != "" {
		return nil, fmt.Errorf("%s", pm)
	}
	if err != nil && !monitor {
		return nil, err
	}
	return &sqImage{d, size, start, blocksize}, err
}

func (i *sqImage) open(ro bool) (*squashfs.FileSystem, error) {
	return squashfs.Read(be(i.Dev, ro), i.Size, i.Start, i.Blocksize)
}

type ext4Image struct {
	Dev   *memdev.Dev
	Size  int64
	Start int64
}

// ext4SmallParams: small volumes need the journal and the resize inode off (Create refuses single-group volumes otherwise).
func ext4SmallParams(sectorsPerBlock uint8, csum bool) *ext4.Params {
	feats := []ext4.FeatureOpt{ext4.WithFeatureHasJournal(false), ext4.WithFeatureReservedGDTBlocksForExpansion(false)}
	if !csum {
		feats = append(feats, ext4.WithFeatureMetadataChecksums(false), ext4.WithFeatureGDTChecksum(false))
	}
	return &ext4.Params{SectorsPerBlock: sectorsPerBlock, Features: feats, Checksum: csum}
}

func buildExt4(t *treeSpec, size, start int64, p *ext4.Params) (img *ext4Image, fs *ext4.FileSystem, err error) {
	d := memdev.New(start + size + 64<<10)
	if pm := guard(func() {
		fs, err = ext4.Create(be(d, false), size, start, 512, p)
		if err != nil {
			return
		}
		for _, dir := range t.Dirs {
			if err = fs.Mkdir(dir); err != nil {
				return
			}
		}
		for _, f := range t.sortedFiles() {
			if i := strings.LastIndex(f, "/"); i > 0 {
				if err = fs.Mkdir(f[:i]); err != nil {
					return
				}
			}
			var h filesystem.File
			h, err = fs.OpenFile(f, os.O_CREATE|os.O_RDWR)
			if err != nil {
				return
			}
			if len(t.Files[f]) > 0 {
				if _, err = h.Write(t.Files[f]); err != nil {
					return
				}
			}
			_ = h.Close()
		}
		for l, tg := range t.Links {
			if err = fs.Symlink(tg, l); err != nil {
				return
			}
		}
	}); pm != "" {
		return nil, nil, fmt.Errorf("%s", pm)
	}
	if err != nil {
		return nil, nil, err
	}
	return &ext4Image{d, size, start}, fs, nil
}

func (i *ext4Image) open(ro bool) (*ext4.FileSystem, error) {
	return ext4.Read(be(i.Dev, ro), i.Size, i.Start, 512)
}

func readAllFile(f io.Reader, limit int) ([]byte, error) {
	var out []byte
	buf := make([]byte, 4096)
	for len(out) <= limit {
		n, err := f.Read(buf)
		out = append(out, buf[:n]...)
		if err == io.EOF {
			return out, nil
		}
		if err != nil {
			return out, err
		}
		if n == 0 {
			return out, fmt.Errorf("Read returned 0, nil")
		}
	}
	return out, fmt.Errorf("more than %d bytes", limit)
}
