package checks

import (
	"bytes"
	"crypto/sha256"
	"fmt"
	"os"
	"os/exec"
	"path/filepath"
	"regexp"
	"sort"
	"strings"
	"sync"
	"sync/atomic"

	"github.com/diskfs/go-diskfs/filesystem/ext4"
	"github.com/google/uuid"

	"verifmc/ev"
	"verifmc/explore"
)

func init() {
	register("C04", "model_checking", C04)
	register("C05", "model_checking", C05)
	Replayers["C04"] = func(raw []byte) string {
		return replayFatHistory(raw, "model", func() []*fatScen { return ext4AllScens("model", false, 9) })
	}
	Replayers["C05"] = func(raw []byte) string {
		return replayFatHistory(raw, "e2fsck", func() []*fatScen { return append(ext4AllScens("e2fsck", false, 9), ext4MatrixScens(false)...) })
	}
	// ext4 draws its hash seed and journal UUID from google/uuid's random source: own it (constant stream) so that
	// images are a function of the history alone
	uuid.SetRand(constReader(0x5c))
}

type constReader byte

func (c constReader) Read(p []byte) (int, error) {
	for i := range p {
		p[i] = byte(c)
	}
	return len(p), nil
}

// ext4FeatTag maps a feature-set tag of the Create matrix to options.
func ext4FeatTag(tag string) []ext4.FeatureOpt {
	var out []ext4.FeatureOpt
	for _, t := range strings.Split(tag, ",") {
		on := !strings.HasPrefix(t, "^")
		switch strings.TrimPrefix(t, "^") {
		case "64bit":
			out = append(out, ext4.WithFeatureFS64Bit(on))
		case "flex_bg":
			out = append(out, ext4.WithFeatureFlexBlockGroups(on))
		case "sparse_super2":
			out = append(out, ext4.WithFeatureSparseSuperBlockV2(on))
		case "resize_inode":
			out = append(out, ext4.WithFeatureReservedGDTBlocksForExpansion(on))
		case "huge_file":
			out = append(out, ext4.WithFeatureHugeFile(on))
		case "dir_index":
			out = append(out, ext4.WithFeatureDirectoryIndices(on))
		case "large_file":
			out = append(out, ext4.WithFeatureLargeFile(on))
		}
	}
	return out
}

func ext4Configs(quick bool) []fatCfg {
	// (the first configuration gets the prepared-state scenarios in the quick tier: it is the one WITHOUT metadata_csum,
	// because with metadata_csum every extent tree deeper than the inode is a known finding that ends the exploration)
	cs := []fatCfg{
		{Type: 4, Size: 1 << 20, Start: 0, E4SectorsPerBlock: 2, E4NoCsum: true},
		{Type: 4, Size: 2 << 20, Start: 1 << 20, E4SectorsPerBlock: 2},
	}
	if !quick {
		cs = append(cs,
			fatCfg{Type: 4, Size: 8 << 20, Start: 0, E4SectorsPerBlock: 8},
			fatCfg{Type: 4, Size: 16 << 20, Start: 1 << 20, E4SectorsPerBlock: 2, E4Journal: true},
		)
	}
	return cs
}

func ext4Scenarios(cfg fatCfg, oracle string, depth int, quick bool) []*fatScen {
	W := func(p, off, ln string) fsOp { return fsOp{Kind: "write", Path: p, Off: off, Len: ln} }
	var out []*fatScen
	// files
	var lf []fsOp
	for _, o := range []string{"0", "cmid", "eof", "past"} {
		for _, l := range []string{"1", "c-1", "c+1", "5c"} {
			if quick && (o == "cmid" && l != "c+1" || o == "0" && l == "c-1") {
				continue
			}
			lf = append(lf, W("f1.bin", o, l))
		}
	}
	lf = append(lf, W("d/f2-a-rather-long-file-name.bin", "0", "c"), W("d/f2-a-rather-long-file-name.bin", "mid", "c+1"),
		fsOp{Kind: "append", Path: "f1.bin", Len: "c+1"}, fsOp{Kind: "append", Path: "d/f2-a-rather-long-file-name.bin", Len: "1"},
		fsOp{Kind: "mkdir", Path: "d"}, fsOp{Kind: "mkdir", Path: "d/e"}, fsOp{Kind: "create", Path: "d/e/empty"},
		fsOp{Kind: "remove", Path: "f1.bin"}, fsOp{Kind: "remove", Path: "d/f2-a-rather-long-file-name.bin"}, fsOp{Kind: "remove", Path: "d/e"}, fsOp{Kind: "remove", Path: "d"},
		fsOp{Kind: "readpartial", Path: "f1.bin"}, fsOp{Kind: "reopen"})
	out = append(out, &fatScen{Name: "files", Cfg: cfg, Letters: lf, Depth: depth, Oracle: oracle})
	// links
	tg := func(n int, abs bool) string {
		s := strings.Repeat("t", n)
		if abs {
			s = "/" + s[1:]
		}
		return s
	}
	ll := []fsOp{{Kind: "mkdir", Path: "d"}, {Kind: "create", Path: "target.txt"}, W("target.txt", "0", "7")}
	for i, n := range []int{1, 59, 60, 61, 300} {
		ll = append(ll, fsOp{Kind: "symlink", Path: fmt.Sprintf("l%d", i), Path2: tg(n, i%2 == 1)})
	}
	ll = append(ll, fsOp{Kind: "symlink", Path: "d/rel", Path2: "../target.txt"}, fsOp{Kind: "symlink", Path: "l0", Path2: "target.txt"},
		fsOp{Kind: "remove", Path: "l0"}, fsOp{Kind: "remove", Path: "l2"}, fsOp{Kind: "remove", Path: "l4"}, fsOp{Kind: "remove", Path: "target.txt"}, fsOp{Kind: "reopen"})
	out = append(out, &fatScen{Name: "links", Cfg: cfg, Letters: ll, Depth: depth, Oracle: oracle})
	// attrs
	la := []fsOp{{Kind: "mkdir", Path: "d"}, {Kind: "create", Path: "a"}, W("a", "0", "c+1"), {Kind: "create", Path: "d/b"},
		{Kind: "chmod", Path: "a", Len: "0"}, {Kind: "chmod", Path: "a", Len: "7777"}, {Kind: "chmod", Path: "a", Len: "4750"}, {Kind: "chmod", Path: "d", Len: "1777"}, {Kind: "chmod", Path: "d/b", Len: "644"},
		{Kind: "chown", Path: "a", Len: "65536:70000"}, {Kind: "chown", Path: "a", Len: "-1:5"}, {Kind: "chown", Path: "d", Len: "1000:-1"}, {Kind: "chown", Path: "d/b", Len: "4294967295:0"},
		{Kind: "chtimes", Path: "a", Len: "1"}, {Kind: "chtimes", Path: "a", Len: "2147483648"}, {Kind: "chtimes", Path: "d", Len: "1700000000"}, {Kind: "chtimes", Path: "d/b", Len: "4294967296"},
		{Kind: "remove", Path: "a"}, {Kind: "reopen"}}
	out = append(out, &fatScen{Name: "attrs", Cfg: cfg, Letters: la, Depth: depth, Oracle: oracle})
	// names: name lengths around the 8-bit record arithmetic (8+247 = 255, 8+248 = 256) and the 255-byte limit
	nm := func(c string, n int) string { return strings.Repeat(c, n) }
	ln := []fsOp{{Kind: "create", Path: nm("a", 247)}, {Kind: "create", Path: nm("b", 248)}, W(nm("c", 255), "0", "c+1"), {Kind: "mkdir", Path: nm("d", 255)},
		{Kind: "create", Path: nm("d", 255) + "/" + nm("e", 250)}, {Kind: "symlink", Path: nm("l", 252), Path2: nm("c", 255)},
		{Kind: "remove", Path: nm("b", 248)}, {Kind: "remove", Path: nm("c", 255)}, {Kind: "create", Path: "short"}, {Kind: "reopen"}}
	out = append(out, &fatScen{Name: "names", Cfg: cfg, Letters: ln, Depth: depth, Oracle: oracle})
	// dirshrink: a directory whose second block holds just two entries; removing them empties that block (the library turns
	// it into an empty, checksummed filler block), then the directory is listed, re-opened and grown again
	var pds []fsOp
	pds = append(pds, fsOp{Kind: "mkdir", Path: "s"})
	nds := 26
	if cfg.E4SectorsPerBlock >= 8 {
		nds = 100
	}
	for i := 0; i < nds; i++ {
		pds = append(pds, fsOp{Kind: "create", Path: fmt.Sprintf("s/entry-with-a-long-name-%03d.dat", i)})
	}
	lds := []fsOp{{Kind: "remove", Path: fmt.Sprintf("s/entry-with-a-long-name-%03d.dat", nds-1)}, {Kind: "remove", Path: fmt.Sprintf("s/entry-with-a-long-name-%03d.dat", nds-2)}, {Kind: "remove", Path: fmt.Sprintf("s/entry-with-a-long-name-%03d.dat", nds-3)},
		{Kind: "remove", Path: "s/entry-with-a-long-name-000.dat"}, {Kind: "create", Path: "s/new-entry-with-a-long-name.dat"}, {Kind: "mkdir", Path: "s/sub"}, {Kind: "reopen"}}
	out = append(out, &fatScen{Name: "dirshrink", Cfg: cfg, Prefix: pds, Letters: lds, Depth: depth, Oracle: oracle})
	return out
}

func ext4PrefixScenarios(cfg fatCfg, oracle string, depth int) []*fatScen {
	W := func(p, off, ln string) fsOp { return fsOp{Kind: "write", Path: p, Off: off, Len: ln} }
	var out []*fatScen
	// bigdir: directory longer than one block
	var pre []fsOp
	pre = append(pre, fsOp{Kind: "mkdir", Path: "big"})
	n := 40
	if cfg.E4SectorsPerBlock >= 8 {
		n = 130
	}
	for i := 0; i < n; i++ {
		pre = append(pre, fsOp{Kind: "create", Path: fmt.Sprintf("big/entry-with-a-long-name-%03d.dat", i)})
	}
	lb := []fsOp{{Kind: "create", Path: "big/one-more-entry-with-a-long-name.dat"}, W("big/entry-with-a-long-name-003.dat", "0", "c+1"), {Kind: "mkdir", Path: "big/sub"},
		{Kind: "remove", Path: "big/entry-with-a-long-name-000.dat"}, {Kind: "remove", Path: fmt.Sprintf("big/entry-with-a-long-name-%03d.dat", n-1)}, {Kind: "remove", Path: "big/entry-with-a-long-name-020.dat"},
		{Kind: "symlink", Path: "big/link", Path2: "entry-with-a-long-name-001.dat"}, {Kind: "reopen"}}
	out = append(out, &fatScen{Name: "bigdir", Cfg: cfg, Prefix: pre, Letters: lb, Depth: depth, Oracle: oracle})
	// extents: two files appended alternately => more than four extents each
	var pe []fsOp
	for i := 0; i < 6; i++ {
		pe = append(pe, fsOp{Kind: "append", Path: "x.bin", Len: "c+1"}, fsOp{Kind: "append", Path: "y.bin", Len: "c"})
	}
	le := []fsOp{{Kind: "append", Path: "x.bin", Len: "c+1"}, {Kind: "append", Path: "y.bin", Len: "5c"}, W("x.bin", "cmid", "5c"), W("x.bin", "mid", "c+1"), W("y.bin", "past", "1"),
		{Kind: "readpartial", Path: "x.bin"}, {Kind: "readpartial", Path: "y.bin"}, {Kind: "remove", Path: "x.bin"}, {Kind: "create", Path: "z"}, {Kind: "reopen"}}
	out = append(out, &fatScen{Name: "extents", Cfg: cfg, Prefix: pe, Letters: le, Depth: depth, Oracle: oracle})
	// fragdir: a directory that grows block by block while file data lands between its blocks, until it needs a
	// fifth discontiguous extent (the library then re-lays the directory out in one run)
	long := func(i int) string { return fmt.Sprintf("frag/%02d-%s", i, strings.Repeat("n", 190)) }
	var pf []fsOp
	pf = append(pf, fsOp{Kind: "mkdir", Path: "frag"})
	nfrag := 19
	if cfg.E4SectorsPerBlock >= 8 {
		nfrag = 76
	}
	for i := 0; i < nfrag; i++ {
		pf = append(pf, W(long(i), "0", "c"))
	}
	lfr := []fsOp{W(long(90), "0", "c"), W(long(91), "0", "c+1"), W(long(92), "0", "1"), W(long(93), "0", "c"), W(long(94), "0", "c"), {Kind: "mkdir", Path: "frag/sub-" + strings.Repeat("d", 180)},
		{Kind: "remove", Path: long(3)}, W(long(0), "eof", "c+1"), {Kind: "reopen"}}
	out = append(out, &fatScen{Name: "fragdir", Cfg: cfg, Prefix: pf, Letters: lfr, Depth: depth + 1, Oracle: oracle})
	// manyextents: one file with 206 separately allocated extents (another file grows in between), so that the next
	// appends take its extent tree through the leaf splits up to the split of the root index (depth 1 -> 2 at ~211)
	var pm []fsOp
	for i := 0; i < 206; i++ {
		pm = append(pm, fsOp{Kind: "append", Path: "x.bin", Len: "c"}, fsOp{Kind: "append", Path: "y.bin", Len: "c"})
	}
	lm := []fsOp{{Kind: "append", Path: "x.bin", Len: "c"}, {Kind: "append", Path: "y.bin", Len: "c"}}
	if oracle == "model" {
		lm = append(lm, fsOp{Kind: "readpartial", Path: "x.bin"}, fsOp{Kind: "reopen"})
	}
	out = append(out, &fatScen{Name: "manyextents", Cfg: cfg, Prefix: pm, Letters: lm, Depth: 7, Oracle: oracle})
	// fragfree: free space is fragmented into runs of a few blocks, so that growing writes need several extents at once
	// and allocation gathers several free runs of one group (the allocator's slow path)
	hole := "6c"
	lff := []fsOp{{Kind: "append", Path: "q0000", Len: "13c"}, W("new-file.bin", "0", "13c+1"), W("q0002", "past", "20c"), {Kind: "append", Path: "q0004", Len: "7c"}, W("small.bin", "0", "c+1"),
		{Kind: "mkdir", Path: "newdir"}, {Kind: "symlink", Path: "slow-link", Path2: strings.Repeat("t", 90)}, {Kind: "remove", Path: "q0000"}, {Kind: "remove", Path: "q0002"},
		{Kind: "readpartial", Path: "q0000"}, {Kind: "reopen"}}
	out = append(out, &fatScen{Name: "fragfree", Cfg: cfg, Prefix: []fsOp{{Kind: "fragfill", Path: "q", Len: hole}}, Letters: lff, Depth: depth, Oracle: oracle})
	// alignedholes: single-block and three-block holes at every bit position of a bitmap byte, each followed by a run of
	// used blocks that covers whole bitmap bytes (free-run searches that work bytewise must not join a hole to the next one)
	var pa []fsOp
	for i := 0; i < 9; i++ {
		pa = append(pa, W(fmt.Sprintf("h%d", i), "0", "c"), W(fmt.Sprintf("k%d.bin", i), "0", "16c"))
	}
	for i := 0; i < 8; i++ {
		pa = append(pa, W(fmt.Sprintf("g%d", i), "0", "3c"), W(fmt.Sprintf("m%d.bin", i), "0", "8c"))
	}
	for i := 0; i < 9; i++ {
		pa = append(pa, fsOp{Kind: "remove", Path: fmt.Sprintf("h%d", i)})
	}
	for i := 0; i < 8; i++ {
		pa = append(pa, fsOp{Kind: "remove", Path: fmt.Sprintf("g%d", i)})
	}
	lah := []fsOp{W("n2.bin", "0", "2c"), W("n4.bin", "0", "4c"), W("n1.bin", "0", "c"), {Kind: "append", Path: "k0.bin", Len: "2c"}, {Kind: "append", Path: "m7.bin", Len: "5c"}, {Kind: "mkdir", Path: "nd"},
		{Kind: "remove", Path: "k3.bin"}, {Kind: "readpartial", Path: "k4.bin"}, {Kind: "reopen"}}
	out = append(out, &fatScen{Name: "alignedholes", Cfg: cfg, Prefix: pa, Letters: lah, Depth: depth + 1, Oracle: oracle})
	if oracle != "model" {
		out = append(out, heldHandleScenario(cfg, oracle, depth))
	}
	// leafsplit: a file whose extent-tree leaf is exactly full (84 extents with 1 KiB blocks; 4 in the inode before that), on
	// a volume with no free block; the letters free one block and append again: the append needs a data block AND a
	// second leaf block, is refused - and must leave the file as it was
	if cfg.E4SectorsPerBlock == 2 && cfg.Size <= 1<<20 {
		var pl []fsOp
		for i := 0; i < 84; i++ {
			pl = append(pl, fsOp{Kind: "append", Path: "x.bin", Len: "c"}, fsOp{Kind: "append", Path: "y.bin", Len: "c"})
		}
		pl = append(pl, W("one.bin", "0", "c"), W("two.bin", "0", "2c"), fsOp{Kind: "fillgeo", Path: "z"})
		ll := []fsOp{{Kind: "remove", Path: "one.bin"}, {Kind: "remove", Path: "two.bin"}, {Kind: "append", Path: "x.bin", Len: "c"}, {Kind: "append", Path: "y.bin", Len: "c"}, {Kind: "readpartial", Path: "x.bin"}, {Kind: "reopen"}}
		d := depth + 1
		if oracle == "e2fsck" {
			d = 2
		}
		out = append(out, &fatScen{Name: "leafsplit", Cfg: cfg, Prefix: pl, Letters: ll, Depth: d, Oracle: oracle})
	}
	// enospc: fill the volume
	lfill := []fsOp{W("F1", "0", "p40"), W("F1", "0", "p70"), W("F2", "0", "p40"), W("F2", "0", "p70"), {Kind: "remove", Path: "F1"}, {Kind: "remove", Path: "F2"}, {Kind: "mkdir", Path: "DIR"}, {Kind: "create", Path: "DIR/x"}, {Kind: "reopen"}}
	out = append(out, &fatScen{Name: "enospc", Cfg: cfg, Letters: lfill, Depth: depth, Oracle: oracle})
	return out
}

// ext4GroupSpanScenario: a small multi-group volume (256 blocks per group) on which one file covers the blocks around
// several group boundaries, so that whatever is written to a wrong block near a boundary (a misplaced backup of the
// superblock or of the group descriptors, a bitmap of the neighbouring group) lands in file data; then a later session
// (re-open) changes the volume.
func ext4GroupSpanScenario(oracle string, depth int) *fatScen {
	W := func(p, off, ln string) fsOp { return fsOp{Kind: "write", Path: p, Off: off, Len: ln} }
	cfg := fatCfg{Type: 4, Size: 2 << 20, Start: 4096, E4SectorsPerBlock: 2, E4Feat: "bpg=256"}
	pre := []fsOp{W("span.bin", "0", "900c"), {Kind: "mkdir", Path: "d"}}
	l := []fsOp{{Kind: "reopen"}, W("x.bin", "0", "c+1"), {Kind: "mkdir", Path: "d/e"}, {Kind: "remove", Path: "x.bin"}, {Kind: "append", Path: "span.bin", Len: "c"}, {Kind: "symlink", Path: "l", Path2: strings.Repeat("t", 70)}}
	return &fatScen{Name: "groupspan", Cfg: cfg, Prefix: pre, Letters: l, Depth: depth, Oracle: oracle}
}

// ext4ManyInodesScenario: 32 inodes per group (256 blocks per group); 19 files already exist, so the next creates take the
// last inodes of group 0 and the first ones of group 1 (an inode number that is an exact multiple of the inodes per group
// belongs to the group BEFORE that boundary).
func ext4ManyInodesScenario(oracle string, depth int) *fatScen {
	cfg := fatCfg{Type: 4, Size: 2 << 20, Start: 4096, E4SectorsPerBlock: 2, E4Feat: "bpg=256"}
	var pre []fsOp
	for i := 0; i < 18; i++ {
		pre = append(pre, fsOp{Kind: "create", Path: fmt.Sprintf("m%02d", i)})
	}
	l := []fsOp{{Kind: "create", Path: "n1"}, {Kind: "write", Path: "n2", Off: "0", Len: "c+1"}, {Kind: "create", Path: "n3"}, {Kind: "mkdir", Path: "nd"}, {Kind: "symlink", Path: "nl", Path2: strings.Repeat("t", 70)},
		{Kind: "remove", Path: "m05"}, {Kind: "reopen"}}
	return &fatScen{Name: "manyinodes", Cfg: cfg, Prefix: pre, Letters: l, Depth: depth, Oracle: oracle}
}

// ext4GroupSpanSmallScenario: the same geometry with metadata_csum; one write of 600 blocks is served from three block groups
// at once (the allocator's slow path) and still fits the four extents of the inode, so that no extent block is involved
func ext4GroupSpanSmallScenario(oracle string, depth int) *fatScen {
	W := func(p, off, ln string) fsOp { return fsOp{Kind: "write", Path: p, Off: off, Len: ln} }
	cfg := fatCfg{Type: 4, Size: 2 << 20, Start: 4096, E4SectorsPerBlock: 2, E4Feat: "bpg=256"}
	pre := []fsOp{W("span3.bin", "0", "600c")}
	l := []fsOp{{Kind: "reopen"}, W("x.bin", "0", "c+1"), W("second.bin", "0", "400c"), {Kind: "mkdir", Path: "d"}, {Kind: "remove", Path: "span3.bin"}}
	return &fatScen{Name: "groupspan3", Cfg: cfg, Prefix: pre, Letters: l, Depth: depth, Oracle: oracle}
}

func ext4AllScens(oracle string, quick bool, depth int) []*fatScen {
	var out []*fatScen
	out = append(out, ext4GroupSpanSmallScenario(oracle, 2))
	if oracle == "e2fsck" && quick {
		// (every transition costs an e2fsck and a debugfs run)
		out = append(out, ext4GroupSpanScenario(oracle, 2), ext4ManyInodesScenario(oracle, 3))
	} else {
		out = append(out, ext4GroupSpanScenario(oracle, 3), ext4ManyInodesScenario(oracle, 4))
	}
	for i, c := range ext4Configs(quick) {
		out = append(out, ext4Scenarios(c, oracle, depth, quick)...)
		if i == 0 || !quick {
			pd := depth - 1
			if pd < 2 && oracle != "e2fsck" {
				pd = 2
			}
			if pd < 1 {
				pd = 1
			}
			out = append(out, ext4PrefixScenarios(c, oracle, pd)...)
		}
	}
	return out
}

func C04(r *ev.Run) {
	depth := 3
	if !r.Quick() {
		depth = 4
	}
	scens := ext4AllScens("model", r.Quick(), depth)
	t := runFatScens(r, scens, false)
	t.write(r)
	r.Assume("reference model: a plain tree of files, directories and symlinks; attributes are compared once an accepted call has set them; acceptance follows the implementation")
}

// ---- C05: e2fsck oracle -------------------------------------------------------------------------------

var e2memo = struct {
	sync.Mutex
	m map[[32]byte][]string
}{m: map[[32]byte][]string{}}

var e2seq atomic.Int64

var reDigits = regexp.MustCompile(`[0-9]+`)

// e2fsckProblems dumps the volume and runs the reference checker; returns normalised complaint lines (nil = clean).
func e2fsckProblems(s *fatSys) []string {
	dg := s.dev.DigestRange(s.cfg.Start, s.cfg.Start+s.cfg.Size)
	e2memo.Lock()
	if v, ok := e2memo.m[dg]; ok {
		e2memo.Unlock()
		return v
	}
	e2memo.Unlock()
	scratch := os.Getenv("VERIF_SCRATCH")
	if scratch == "" {
		scratch = "/dev/shm"
	}
	h := sha256.Sum256(dg[:])
	img := filepath.Join(scratch, fmt.Sprintf("e2-%x-%d.img", h[:8], e2seq.Add(1)))
	if err := os.WriteFile(img, s.dev.Bytes(s.cfg.Start, s.cfg.Start+s.cfg.Size), 0o600); err != nil {
		return []string{"INFRA cannot write image: " + err.Error()}
	}
	defer os.Remove(img)
	cmd := exec.Command("/usr/sbin/e2fsck", "-f", "-n", img)
	var outb bytes.Buffer
	cmd.Stdout = &outb
	cmd.Stderr = &outb
	err := cmd.Run()
	var probs []string
	if err != nil {
		if os.Getenv("VERIF_E2_RAW") != "" {
			fmt.Fprintf(os.Stderr, "---- e2fsck raw (%s)\n%s\n", s.cfg, outb.String())
		}
		seen := map[string]bool{}
		for _, ln := range strings.Split(outb.String(), "\n") {
			ln = strings.TrimSpace(ln)
			if ln == "" || strings.HasPrefix(ln, "Pass ") || strings.HasPrefix(ln, "e2fsck ") || strings.Contains(ln, "WARNING: Filesystem still has errors") || strings.HasSuffix(ln, "? no") && len(ln) < 12 {
				continue
			}
			if strings.Contains(ln, "files (") && strings.Contains(ln, "blocks") {
				continue
			}
			if strings.Contains(ln, "bitmap differences:") {
				sign := ""
				if strings.Contains(ln, " -") {
					sign += " marked-in-use-but-unowned(-)"
				}
				if strings.Contains(ln, " +") {
					sign += " used-but-marked-free(+)"
				}
				ln = ln[:strings.Index(ln, ":")+1] + sign
			}
			n := reDigits.ReplaceAllString(ln, "N")
			n = strings.ReplaceAll(n, img, "IMG")
			if len(n) > 70 {
				n = n[:70]
			}
			if !seen[n] {
				seen[n] = true
				probs = append(probs, n)
			}
		}
		if len(probs) == 0 {
			probs = []string{"e2fsck exit: " + err.Error()}
		}
		sort.Strings(probs)
	} else if s.oracle == "e2fsck" {
		// the files e2fsprogs' own reader extracts equal what was written
		paths := make([]string, 0)
		for k, n := range s.model.n {
			if !n.Dir && n.Link == "" {
				paths = append(paths, k)
			}
		}
		sort.Strings(paths)
		for _, p := range paths {
			out, derr := exec.Command("/usr/sbin/debugfs", "-R", "cat \"/"+p+"\"", img).Output()
			if derr != nil {
				probs = append(probs, "debugfs cat failed")
				break
			}
			if !bytes.Equal(out, s.model.n[p].Data) {
				probs = append(probs, fmt.Sprintf("debugfs extracts different bytes for a file (%d vs %d bytes)", len(out), len(s.model.n[p].Data)))
				break
			}
		}
	}
	e2memo.Lock()
	e2memo.m[dg] = probs
	e2memo.Unlock()
	return probs
}

func (s *fatSys) e2fsckViols(after string) (viols []explore.Viol) {
	probs := e2fsckProblems(s)
	if len(probs) == 0 {
		return nil
	}
	key := probs
	if len(key) > 3 {
		key = key[:3]
	}
	sig := "e2fsck|" + strings.Join(key, "|") + "|after=" + after
	if !s.cfg.E4NoCsum {
		for _, p := range probs {
			if strings.Contains(p, "checksum does not match extent") {
				// one class whatever the scenario and the operation: with metadata_csum the library writes extent-tree
				// blocks without their checksum tail
				return []explore.Viol{{Sig: "@e2fsck|metadata_csum|extent-block-without-checksum", Msg: fmt.Sprintf("%s after %s: e2fsck -f -n complains: %s", s.cfg, after, strings.Join(probs, "; "))}}
			}
		}
	}
	if after == "create" && s.cfg.E4Feat != "" {
		// a feature set whose freshly created image is not clean is one finding, whatever geometry shows it
		sig = "e2fsck|create-not-clean"
	}
	return []explore.Viol{{Sig: sig, Msg: fmt.Sprintf("%s after %s: e2fsck -f -n complains: %s", s.cfg, after, strings.Join(probs, "; "))}}
}

// ext4MatrixScens: Create parameter matrix, each followed by a depth-2 exploration.
func ext4MatrixScens(quick bool) []*fatScen {
	W := func(p, off, ln string) fsOp { return fsOp{Kind: "write", Path: p, Off: off, Len: ln} }
	letters := []fsOp{{Kind: "mkdir", Path: "d"}, W("d/f.bin", "0", "c+1"), W("g.bin", "cmid", "5c"), {Kind: "symlink", Path: "l", Path2: strings.Repeat("t", 61)}, {Kind: "remove", Path: "g.bin"}, {Kind: "reopen"}}
	var out []*fatScen
	// inode counts that are / are not multiples of the inodes per block (4, 8, 16 for 1K, 2K, 4K blocks): 64 fills whole
	// blocks, 40 and 104 leave the last inode-table block of a group partly used
	feats := []string{"", "^64bit", "^flex_bg", "sparse_super2", "resize_inode", "ssv2,sparse_super2", "bpg=2048", "ratio=4096", "inodes=64", "inodes=40", "inodes=104,^flex_bg", "bpg=256", "^huge_file", "^64bit,^flex_bg", "sparse_super2,^flex_bg", "^dir_index", "bpg=1024,^flex_bg"}
	type geo struct {
		spb  uint8
		size int64
	}
	geos := []geo{{2, 1 << 20}, {2, 9 << 20}, {4, 4 << 20}, {8, 8 << 20}, {8, 300 << 20}}
	if quick {
		geos = []geo{{2, 1 << 20}, {2, 9 << 20}, {8, 8 << 20}}
	}
	for _, g := range geos {
		for fi, f := range feats {
			for _, journal := range []bool{false, true} {
				for _, nocsum := range []bool{false, true} {
					if quick && (fi > 11 || (journal && nocsum)) {
						continue
					}
					if journal && g.size < 8<<20 {
						continue
					}
					c := fatCfg{Type: 4, Size: g.size, Start: 4096, E4SectorsPerBlock: g.spb, E4NoCsum: nocsum, E4Journal: journal, E4Feat: f}
					name := "matrix[" + f + "]"
					d := 2
					if quick && g.size != 1<<20 && (fi+int(g.spb))%3 != 0 {
						d = 1 // quick tier: pairs of operations on the smallest geometry and on every third of the others
					}
					out = append(out, &fatScen{Name: name, Cfg: c, Letters: letters, Depth: d, Oracle: "e2fsck"})
				}
			}
		}
	}
	out = append(out, ext4GroupSweep("e2fsck", quick, letters)...)
	return out
}

// ext4GroupSweep: Create (plus one operation) on volumes of 256-block groups whose number of groups is exactly, one below
// and one above a whole number of group-descriptor blocks (16 descriptors of 64 bytes or 32 of 32 bytes per 1 KiB block), and
// whose last group is 0..16 blocks long - too short for its own bitmaps and inode table; group 27 also carries a backup of
// the superblock and the descriptors; 9, 17 and 25 groups make the short last group the first of a flex group. Create must
// refuse such a size or produce a clean image, and must not write behind the range it was given.
func ext4GroupSweep(oracle string, quick bool, letters []fsOp) []*fatScen {
	var out []*fatScen
	for _, groups := range []int64{8, 15, 16, 17, 24, 27, 31, 32, 33, 64} {
		extras := []int64{0, 1 << 10}
		if groups == 16 || groups == 27 || groups == 8 || groups == 24 {
			extras = []int64{0, 1 << 10, 2 << 10, 3 << 10, 9 << 10, 10 << 10, 11 << 10, 12 << 10, 13 << 10, 14 << 10}
			if !quick {
				extras = nil
				for k := int64(0); k <= 16; k++ {
					extras = append(extras, k<<10)
				}
			}
		}
		for _, extra := range extras {
			for _, f := range []string{"bpg=256", "bpg=256,^64bit"} {
				if quick && (groups == 15 || groups == 31 || groups == 64) && extra != 0 {
					continue
				}
				if quick && (groups == 8 || groups == 24) && f != "bpg=256" {
					continue
				}
				c := fatCfg{Type: 4, Size: groups*256<<10 + extra, Start: 4096, E4SectorsPerBlock: 2, E4Feat: f}
				out = append(out, &fatScen{Name: "groups[" + f + "]", Cfg: c, Letters: letters, Depth: 1, Oracle: oracle})
			}
		}
	}
	return out
}

func C05(r *ev.Run) {
	depth := 2
	if !r.Quick() {
		depth = 3
	}
	// the Create matrix and the geometry sweeps (many cheap scenarios) run first, the deeper explorations after them, so that
	// a time budget can only ever cut into the latter
	scens := ext4MatrixScens(r.Quick())
	for i, j := 0, len(scens)-1; i < j; i, j = i+1, j-1 {
		scens[i], scens[j] = scens[j], scens[i]
	}
	scens = append(scens, ext4AllScens("e2fsck", r.Quick(), depth)...)
	t := runFatScens(r, scens, false)
	t.write(r)
	e2memo.Lock()
	r.Set("e2fsck_invocations", int64(len(e2memo.m)))
	e2memo.Unlock()
	r.Assume("e2fsprogs 1.47.0 (/usr/sbin/e2fsck -f -n, debugfs) is the definition of a clean ext4 image; results are memoised by image digest (e2fsck is a function of the bytes)")
}
