package checks

import (
	"bytes"
	"compress/zlib"
	"encoding/binary"
	"encoding/json"
	"fmt"
	"io"
	iofs "io/fs"
	"os"
	"sort"
	"strings"

	"github.com/diskfs/go-diskfs/filesystem/squashfs"

	"verifmc/ev"
	"verifmc/memdev"
)

func init() {
	register("C07", "exploration", C07)
	Replayers["C07"] = func(raw []byte) string {
		var osf struct {
			Tree   int    `json:"tree_index"`
			Start  int64  `json:"start"`
			Comp   string `json:"compressor"`
			OSFile bool   `json:"on_os_file"`
		}
		if json.Unmarshal(raw, &osf) == nil && osf.OSFile {
			trees := c07Trees(true, 4096)
			if t2 := c07Trees(false, 4096); osf.Tree >= len(trees) {
				trees = t2
			}
			if osf.Tree >= len(trees) {
				return "tree index out of range"
			}
			c := sqCase{Comp: osf.Comp, Blocksize: 4096}
			img, err := buildSquashOnFile(trees[osf.Tree], sqOptions(&c), 4096, osf.Start)
			if err != nil {
				return err.Error()
			}
			fs, err := img.open(true)
			if err != nil {
				return "cannot open: " + err.Error()
			}
			for p, want := range trees[osf.Tree].Files {
				if got, e := fs.ReadFile(p); e != nil || !bytes.Equal(got, want) {
					return fmt.Sprintf("file %s differs (%v)", p, e)
				}
			}
			return "holds"
		}
		var c sqCase
		if err := json.Unmarshal(raw, &c); err != nil {
			return "bad case"
		}
		trees := c07Trees(c.Tier == "quick" || c.Blocksize != 4096, c.Blocksize)
		if c.Tree < 0 || c.Tree >= len(trees) {
			return "tree index out of range"
		}
		sig, msg, _ := runSqCase(&c, trees[c.Tree])
		if sig == "" {
			return "holds"
		}
		return sig + ": " + msg
	}
}

type sqCase struct {
	Tree      int    `json:"tree_index"`
	Tier      string `json:"tier"`
	Comp      string `json:"compressor"` // default gzip9 xz lz4 zstd
	NoFrag    bool   `json:"no_fragments"`
	NoCompI   bool   `json:"no_compress_inodes"`
	NoCompD   bool   `json:"no_compress_data"`
	NoCompF   bool   `json:"no_compress_fragments"`
	NoPad     bool   `json:"no_pad"`
	Blocksize int64  `json:"blocksize"`
	Cache     int    `json:"cache"` // -1 default, 0, 1 (one block)
	Start     int64  `json:"start"`
	Desc      any    `json:"tree,omitempty"`
}

func sqContent(p string, size int) []byte {
	switch pathSeed(p) % 3 {
	case 0:
		return make([]byte, size) // zero run (sparse)
	case 1:
		b := make([]byte, size) // highly compressible
		for i := range b {
			b[i] = byte('a' + (i/64)%7)
		}
		return b
	}
	// incompressible: xorshift stream
	b := make([]byte, size)
	x := uint64(pathSeed(p))*2654435761 + 88172645463325252
	for i := range b {
		x ^= x << 13
		x ^= x >> 7
		x ^= x << 17
		b[i] = byte(x >> 24)
	}
	return b
}

func c07Trees(quick bool, blk int64) []*treeSpec {
	b := int(blk)
	names := []string{"a", "A.TXT", "readme.md", "longfilename1.txt", "longfilename2.txt", "ü.txt"}
	sizes := []int{0, 1, b - 1, b, b + 1, 2*b + 17}
	nr, sr := []int{0, 2, 4}, []int{0, 1, 2, 3, 4, 5}
	maxNodes := 4
	if quick {
		nr, sr = []int{0}, []int{0, 3}
		maxNodes = 3
	}
	trees := enumTrees(maxNodes, names, sizes, nr, sr, sqContent)
	// symlinks
	for _, base := range []int{1, 5, 9} {
		if base >= len(trees) {
			continue
		}
		t := *trees[base]
		t.Links = map[string]string{"lnk-rel": "a", "lnk-abs": "/some/absolute/target", "lnk-long": strings.Repeat("x/", 100) + "end"}
		trees = append(trees, &t)
	}
	// a compressible full block followed by an incompressible one in the same file, and vice versa
	mixed := append(append(bytes.Repeat([]byte("abcdefgh"), b/8), sqContent("zz2", b)...), bytes.Repeat([]byte{'q'}, b/2)...)
	mixed2 := append(append(sqContent("zz2", b), bytes.Repeat([]byte("abcdefgh"), b/8)...), sqContent("yy2", 100)...)
	trees = append(trees, &treeSpec{Files: map[string][]byte{"mixed.bin": mixed, "mixed2.bin": mixed2, "tail.bin": sqContent("t1", 300), "tail2.bin": sqContent("t2", 700)}})
	// many entries in one directory (listing spans metadata blocks) and many fragments
	big := &treeSpec{Dirs: []string{"many"}, Files: map[string][]byte{}}
	n := 2000
	if quick {
		n = 800 // listing longer than two metadata blocks
	}
	for i := 0; i < n; i++ {
		big.Files[fmt.Sprintf("many/entry-%05d.dat", i)] = sqContent(fmt.Sprint("m", i), i%7)
	}
	trees = append(trees, big)
	{
		frag := &treeSpec{Dirs: []string{"f0", "f1"}, Files: map[string][]byte{}}
		for i := 0; i < 530; i++ {
			frag.Files[fmt.Sprintf("f%d/file-%04d", i%2, i)] = append([]byte(fmt.Sprintf("file-%04d|", i)), sqContent(fmt.Sprint("fr", i), b/2+52)...)
		}
		trees = append(trees, frag)
		// exactly 512 and 1024 fragment blocks: the fragment table's index fills whole metadata blocks (512 entries each)
		if b == 4096 {
			for _, n := range []int{512, 1024} {
				if quick && n != 512 {
					continue
				}
				ff := &treeSpec{Files: map[string][]byte{}}
				for i := 0; i < n; i++ {
					ff.Files[fmt.Sprintf("x%04d", i)] = sqContent(fmt.Sprint("fx", i), b/2+60)
				}
				trees = append(trees, ff)
			}
		}
	}
	// many directories: the directory table itself spans several metadata blocks, so most directories (and nested ones)
	// start in a later block; and many symlinks with targets of every length 1..240 so that some target straddles an
	// inode-table metadata block boundary at every alignment
	{
		md := &treeSpec{Files: map[string][]byte{}, Links: map[string]string{}}
		for d := 0; d < 48; d++ {
			dn := fmt.Sprintf("dir%03d", d)
			md.Dirs = append(md.Dirs, dn, dn+"/sub", dn+"/sub/deeper")
			for i := 0; i < 14; i++ {
				md.Files[fmt.Sprintf("%s/file-with-a-rather-long-name-%03d.txt", dn, i)] = sqContent(fmt.Sprint("md", d, i), (d*14+i)%9)
			}
			md.Files[dn+"/sub/deeper/leaf.txt"] = []byte(dn)
			md.Links[dn+"/sub/up"] = "../file-with-a-rather-long-name-000.txt"
		}
		trees = append(trees, md)
		ml := &treeSpec{Dirs: []string{"links"}, Files: map[string][]byte{"links/target": []byte("t")}, Links: map[string]string{}}
		for i := 0; i < 720; i++ {
			ml.Links[fmt.Sprintf("links/link-%04d", i)] = strings.Repeat("t/", (i%240)/2) + strings.Repeat("e", 1+i%2) + fmt.Sprint(i)
		}
		trees = append(trees, ml)
	}
	// many regular files of one to three full blocks: their inodes (with block lists of different lengths, 60-68 bytes)
	// fill several inode-table metadata blocks, so that an inode straddles a metadata block boundary at many alignments
	{
		mf := &treeSpec{Dirs: []string{"blk"}, Files: map[string][]byte{}}
		nf := 900
		if b > 8192 {
			nf = 0 // only with small blocks (the data would be hundreds of MiB)
		}
		for i := 0; i < nf; i++ {
			k := 1 + (i*7+i/13)%3
			body := bytes.Repeat([]byte(fmt.Sprintf("%04d-block-file|", i)), (k*b)/16+1)[:k*b]
			mf.Files[fmt.Sprintf("blk/f%04d", i)] = body
		}
		if nf > 0 {
			trees = append(trees, mf)
		}
	}
	// the same question decided exhaustively for the first boundary: 150 one-block files behind a symbolic link whose
	// target length shifts every later inode by one byte per tree (60 trees = every alignment of a 60-byte inode)
	if b <= 8192 {
		for p := 0; p < 60; p++ {
			at := &treeSpec{Dirs: []string{"s"}, Files: map[string][]byte{}, Links: map[string]string{"s/aaa-pad": strings.Repeat("t", p+1)}}
			for i := 0; i < 150; i++ {
				at.Files[fmt.Sprintf("s/f%03d", i)] = bytes.Repeat([]byte(fmt.Sprintf("%03d-align-file-|", i)), b/16)
			}
			trees = append(trees, at)
		}
	}
	// sparse file: a hole of several blocks between data
	sp := make([]byte, 6*b+5)
	copy(sp, "head")
	copy(sp[5*b:], "tail-after-hole")
	trees = append(trees, &treeSpec{Files: map[string][]byte{"sparse.bin": sp, "empty": nil}, Dirs: []string{"emptydir"}})
	if blk >= 131072 {
		// 40 files of about 3000 bytes: more than 64 KiB of tails in ONE fragment block
		tails := &treeSpec{Files: map[string][]byte{"one-block.bin": randomBytes(801, int(blk)), "small.txt": sqContent("tails-small", 17)}}
		for i := 0; i < 40; i++ {
			tails.Files[fmt.Sprintf("tail-%02d.bin", i)] = randomBytes(uint64(810+i), 3000+i)
		}
		trees = append(trees, tails)
	}
	return trees
}

func sqOptions(c *sqCase) squashfs.FinalizeOptions {
	o := squashfs.FinalizeOptions{NoFragments: c.NoFrag, NoCompressInodes: c.NoCompI, NoCompressData: c.NoCompD, NoCompressFragments: c.NoCompF, NoPad: c.NoPad}
	switch c.Comp {
	case "gzip9":
		o.Compression = &squashfs.CompressorGzip{CompressionLevel: 9}
	case "xz":
		o.Compression = &squashfs.CompressorXz{}
	case "lz4":
		o.Compression = &squashfs.CompressorLz4{}
	case "zstd":
		o.Compression = &squashfs.CompressorZstd{}
	}
	return o
}

func runSqCase(c *sqCase, t *treeSpec) (sig, msg, outcome string) {
	tag := c.Comp
	if c.NoFrag {
		tag += "|nofrag"
	}
	switch c.Cache {
	case 0:
		tag += "|cache-off"
	case 1:
		tag += "|cache-one-block"
	}
	var content int64
	for _, b := range t.Files {
		content += int64(len(b))
	}
	size := int64(1<<20) + 2*content + int64(len(t.Dirs)+len(t.Files)+len(t.Links))*512
	d := memdev.New(c.Start + size + 64<<10)
	d.LogEvents = true
	var err error
	var fs *squashfs.FileSystem
	if pm := guard(func() {
		fs, err = squashfs.Create(be(d, false), size, c.Start, c.Blocksize)
		if err != nil {
			return
		}
		defer os.RemoveAll(fs.Workspace())
		if err = populateWorkspace(fs.Workspace(), t); err != nil {
			return
		}
		err = fs.Finalize(sqOptions(c))
	}); pm != "" {
		return "finalize|" + tag + "|" + pm, "Finalize panicked: " + pm, "panic"
	}
	if err != nil {
		if len(t.Links) > 0 {
			return "finalize|symlinks|refused|" + errShape(err.Error()), "Finalize refuses a workspace that contains symbolic links: " + err.Error(), "refused-links"
		}
		return "", "", "refused:" + errShape(err.Error())
	}
	var maxW int64
	for _, e := range d.Events {
		if e.Kind == memdev.EvWrite && e.Off+int64(e.Len) > maxW {
			maxW = e.Off + int64(e.Len)
		}
	}
	maxW -= c.Start
	// (3) superblock describes exactly the bytes written
	sb := d.Peek(c.Start, 96)
	if binary.LittleEndian.Uint32(sb[0:4]) != 0x73717368 {
		return "superblock|magic", "no squashfs magic at the start of the range", "invalid"
	}
	used := int64(binary.LittleEndian.Uint64(sb[40:48]))
	if int64(binary.LittleEndian.Uint32(sb[12:16])) != c.Blocksize {
		return "superblock|blocksize", fmt.Sprintf("superblock block size %d, requested %d", binary.LittleEndian.Uint32(sb[12:16]), c.Blocksize), "invalid"
	}
	if c.NoPad {
		if used != maxW {
			return "superblock|bytes-used|nopad", fmt.Sprintf("bytes_used=%d but the last byte written is at %d", used, maxW), "invalid"
		}
	} else if used > maxW || (maxW+4095)/4096 != (used+4095)/4096 && maxW != (used+4095)/4096*4096 {
		return "superblock|bytes-used|padded", fmt.Sprintf("bytes_used=%d, last byte written at %d (padding to 4 KiB allowed)", used, maxW), "invalid"
	}
	tbl := map[string]int64{"id": int64(binary.LittleEndian.Uint64(sb[48:56])), "inode": int64(binary.LittleEndian.Uint64(sb[64:72])), "dir": int64(binary.LittleEndian.Uint64(sb[72:80]))}
	fragT, expT, xatT := int64(binary.LittleEndian.Uint64(sb[80:88])), int64(binary.LittleEndian.Uint64(sb[88:96])), int64(binary.LittleEndian.Uint64(sb[56:64]))
	if fragT != -1 {
		tbl["fragment"] = fragT
	}
	if expT != -1 {
		tbl["export"] = expT
	}
	if xatT != -1 {
		tbl["xattr"] = xatT
	}
	for n, v := range tbl {
		if v < 96 || v >= used {
			return "superblock|table-outside|" + n, fmt.Sprintf("%s table start %d outside [96,%d)", n, v, used), "invalid"
		}
	}
	if !(tbl["inode"] < tbl["dir"] && tbl["dir"] < tbl["id"]) {
		return "superblock|table-order", fmt.Sprintf("table starts out of order: inode=%d dir=%d id=%d", tbl["inode"], tbl["dir"], tbl["id"]), "invalid"
	}
	// (3b) the inode and directory tables are chains of metadata blocks of at most 8 KiB each
	// (walked here from the raw bytes, independently of the library's reader)
	if sg, m := sqMetaChains(d, c, tbl, fragT, used, sb); sg != "" {
		return "metachain|" + tag + "|" + sg, m, "invalid"
	}
	// (1) read back
	got := map[string][]byte{}
	gotDirs := map[string]bool{}
	gotLinks := map[string]string{}
	var rerr error
	if pm := guard(func() {
		rfs, e := squashfs.Read(be(d, true), size, c.Start, c.Blocksize)
		if e != nil {
			rerr = e
			return
		}
		switch c.Cache {
		case 0:
			rfs.SetCacheSize(0)
		case 1:
			rfs.SetCacheSize(int(c.Blocksize))
		}
		rerr = iofs.WalkDir(rfs, ".", func(p string, de iofs.DirEntry, err error) error {
			if err != nil {
				return err
			}
			if p == "." {
				return nil
			}
			if de.IsDir() {
				gotDirs[p] = true
				return nil
			}
			fi, e := de.Info()
			if e == nil && fi.Mode()&os.ModeSymlink != 0 {
				if st, ok := fi.Sys().(*squashfs.StatT); ok && st != nil {
					gotLinks[p] = st.LinkTarget
				} else if rl, ok := de.(interface{ Readlink() (string, error) }); ok {
					gotLinks[p], _ = rl.Readlink()
				} else {
					gotLinks[p] = "?"
				}
				return nil
			}
			b, e := rfs.ReadFile(p)
			if e != nil {
				return fmt.Errorf("ReadFile(%s): %w", p, e)
			}
			got[p] = b
			return nil
		})
	}); pm != "" {
		return "readback|" + tag + "|" + pm, "reading the finalized image panicked: " + pm, "panic"
	}
	if rerr != nil {
		return "readback|" + tag + "|error|" + errShape(rerr.Error()), "the finalized image cannot be read back: " + rerr.Error(), "readerr"
	}
	for _, dd := range t.Dirs {
		if !gotDirs[dd] {
			return "readback|" + tag + "|missing-dir", "directory " + dd + " missing", "mismatch"
		}
	}
	if len(gotDirs) != len(t.Dirs) {
		return "readback|" + tag + "|extra-dir", fmt.Sprintf("%d directories read back, %d in the source", len(gotDirs), len(t.Dirs)), "mismatch"
	}
	ks := make([]string, 0, len(t.Files))
	for p := range t.Files {
		ks = append(ks, p)
	}
	sort.Strings(ks)
	for _, p := range ks {
		g, ok := got[p]
		if !ok {
			return "readback|" + tag + "|missing-file", "file " + p + " missing", "mismatch"
		}
		if !bytes.Equal(g, t.Files[p]) {
			cls := "content"
			if len(g) != len(t.Files[p]) {
				cls = "content-length"
			}
			return "readback|" + tag + "|" + cls, fmt.Sprintf("file %s: %d bytes read, %d in the source, or bytes differ", p, len(g), len(t.Files[p])), "mismatch"
		}
	}
	if len(got) != len(t.Files) {
		return "readback|" + tag + "|extra-file", fmt.Sprintf("%d files read back, %d in the source", len(got), len(t.Files)), "mismatch"
	}
	// the same files read through several handles that are open at once and take turns
	if len(t.Files) <= 64 {
		var ires string
		if pm := guard(func() {
			rfs, e := squashfs.Read(be(d, true), size, c.Start, c.Blocksize)
			if e != nil {
				ires = e.Error()
				return
			}
			if c.Cache == 0 {
				rfs.SetCacheSize(0)
			}
			ires = interleavedRead(rfs, t.Files, 1000)
		}); pm != "" {
			return "readback|" + tag + "|interleaved|" + pm, "reading through several open handles panicked: " + pm, "panic"
		}
		if ires != "" {
			return "readback|" + tag + "|interleaved-handles", ires, "mismatch"
		}
	}
	for l, tg := range t.Links {
		g, ok := gotLinks[l]
		if !ok {
			return "readback|" + tag + "|missing-link", "symlink " + l + " missing", "mismatch"
		}
		if g != tg && g != "?" {
			return "readback|" + tag + "|link-target", fmt.Sprintf("symlink %s -> %q, source %q", l, clip(g), clip(tg)), "mismatch"
		}
	}
	return "", "", "ok"
}

func C07(r *ev.Run) {
	var cases []sqCase
	treesBy := map[int64][]*treeSpec{}
	blocks := []int64{4096, 131072, 1 << 20}
	if r.Quick() {
		blocks = []int64{4096}
	}
	for _, bs := range blocks {
		treesBy[bs] = c07Trees(r.Quick() || bs != 4096, bs)
		for ti := range treesBy[bs] {
			comps := []string{"default", "gzip9", "xz", "lz4", "zstd"}
			if r.Quick() {
				comps = []string{"default", "gzip9", "zstd"}
			}
			if bs != 4096 {
				comps = []string{"gzip9", "zstd"}
				if ti%5 != 0 {
					continue
				}
				// trees whose sizes scale with the block size reach gigabytes at 1 MiB blocks; sixteen of them side by side do
				// not fit into memory: beyond 64 MiB of content a tree is only built with 4 KiB blocks
				var content int64
				for _, b := range treesBy[bs][ti].Files {
					content += int64(len(b))
				}
				if content > 64<<20 {
					continue
				}
			}
			for ci, comp := range comps {
				for _, nofrag := range []bool{false, true} {
					variants := []sqCase{{}}
					if ci == 1 && !r.Quick() || (r.Quick() && ci == 1 && ti%4 == 0) {
						variants = []sqCase{{}, {NoCompI: true}, {NoCompD: true}, {NoCompF: true}, {NoPad: true}, {NoCompI: true, NoCompD: true, NoCompF: true, NoPad: true}}
					}
					for vi, v := range variants {
						c := v
						c.Tree, c.Tier, c.Comp, c.NoFrag, c.Blocksize = ti, r.Tier, comp, nofrag, bs
						c.Cache = []int{-1, 0, 1}[(ti+ci+vi)%3]
						if (ti+ci)%4 == 0 {
							c.Start = 1 << 20
						}
						cases = append(cases, c)
					}
				}
			}
		}
	}
	// a few trees finalized onto a regular file of the operating system instead of the in-memory device, at start 0 and 1 MiB:
	// read back entry by entry; bytes outside the range compared by the builder
	var osCases, osOK int64
	for ti, t := range treesBy[4096] {
		if ti%37 != 5 || len(t.Files) > 64 {
			continue
		}
		for _, start := range []int64{0, 1 << 20} {
			for _, comp := range []string{"default", "gzip9"} {
				osCases++
				c := sqCase{Tree: ti, Tier: r.Tier, Comp: comp, Blocksize: 4096, Start: start, Cache: -1}
				img, err := buildSquashOnFile(t, sqOptions(&c), 4096, start)
				if err != nil {
					if strings.HasPrefix(err.Error(), "OUTSIDE-RANGE") {
						r.Report("c07|finalize|os-file|bytes-changed-outside-the-range", err.Error(), map[string]any{"tree_index": ti, "start": start, "compressor": comp, "on_os_file": true})
					}
					continue
				}
				bad := ""
				if pm := guard(func() {
					fs, e := img.open(true)
					if e != nil {
						bad = "cannot open: " + e.Error()
						return
					}
					for p, want := range t.Files {
						got, e := fs.ReadFile(p)
						if e != nil || !bytes.Equal(got, want) {
							bad = fmt.Sprintf("file %s: %d bytes read (%v), %d in the source, or bytes differ", p, len(got), e, len(want))
							return
						}
					}
					for _, dd := range t.Dirs {
						if _, e := fs.ReadDir(dd); e != nil {
							bad = "directory " + dd + ": " + e.Error()
							return
						}
					}
				}); pm != "" {
					bad = pm
				}
				if bad != "" {
					r.Report("c07|readback|os-file|content", fmt.Sprintf("image finalized onto an OS file at start %d: %s", start, bad), map[string]any{"tree_index": ti, "start": start, "compressor": comp, "on_os_file": true})
					continue
				}
				osOK++
			}
		}
	}
	r.Set("os_file_cases", osCases)
	r.Set("os_file_cases_read_back_equal", osOK)
	// many tails in ONE large fragment block (the last tree of the list for block sizes of 128 KiB and more)
	for _, bs := range []int64{131072, 1 << 20} {
		if r.Quick() && bs != 131072 {
			continue
		}
		if treesBy[bs] == nil {
			treesBy[bs] = c07Trees(true, bs)
		}
		for _, comp := range []string{"default", "gzip9"} {
			cases = append(cases, sqCase{Tree: len(treesBy[bs]) - 1, Tier: r.Tier, Comp: comp, Blocksize: bs, Cache: -1})
		}
	}
	outcomes := newDistinct()
	ok := newDistinct()
	done := parallel(len(cases), r.OutOfTime, func(i int) {
		c := &cases[i]
		t := treesBy[c.Blocksize][c.Tree]
		sig, msg, out := runSqCase(c, t)
		outcomes.add(out)
		if out == "ok" {
			b, _ := json.Marshal(c)
			ok.add(string(b))
		}
		if sig != "" {
			if len(t.Files) < 40 {
				c.Desc = t.describe()
			}
			r.Report("c07|"+sig, msg, c)
		}
		if i%(len(cases)/5+1) == 0 {
			cc := *c
			if len(t.Files) < 40 {
				cc.Desc = t.describe()
			}
			r.Sample(cc)
		}
	})
	r.Set("evaluations", int64(done))
	r.Set("distinct_nontrivial", int64(ok.n()))
	r.Set("distinct_outcomes", outcomes.snapshot())
	r.Set("rule", "trees: every ordered forest with <= 4 nodes (quick: 3) and height <= 3 x name rotations x size rotations over {0,1,blk-1,blk,blk+1,2blk+17} with zero-run / compressible / incompressible contents chosen per path; plus symlink variants, a file mixing compressible and incompressible full blocks, 2000 entries in one directory, 530 files with fragment tails (> 512 fragment blocks), trees of exactly 512 and 1024 fragment blocks, 48 directories x 14 long names with nested sub-directories (directory table of several metadata blocks), 720 symlinks with targets of every length 3..245 (targets straddling inode metadata blocks), 900 files of one to three full blocks (inodes with block lists straddling inode metadata blocks at many alignments), a sparse file; x compressor {default, gzip level 9, xz, lz4, zstd} x fragments on/off x NoCompress{Inodes,Data,Fragments}/NoPad variants x block size {4 KiB, 128 KiB, 1 MiB} x read cache {default, 0, one block} x start {0, 1 MiB}; non-trivial = distinct (tree, options) pairs that Finalize accepted and that were read back and compared entry by entry, with the superblock checked against the device write log")
	r.Set("exhaustive", done == len(cases))
	r.Assume("the same tree compared against the source under every option set makes the views identical across option sets (differential oracle)")
}

// sqMetaChains walks the inode table and the directory table of a written image as chains of
// metadata blocks (2-byte header, bit 15 = stored uncompressed, low 15 bits = stored length) and
// reports a block that is empty, runs past the table, or holds more than 8192 bytes (uncompressed
// blocks always; compressed ones when the compressor is zlib, decoded with the standard library).
func sqMetaChains(d *memdev.Dev, c *sqCase, tbl map[string]int64, fragT, used int64, sb []byte) (sig, msg string) {
	zlibComp := binary.LittleEndian.Uint16(sb[20:22]) == 1
	walk := func(name string, start, end int64, exact bool) (string, string) {
		p := start
		for i := 0; p < end; i++ {
			h := binary.LittleEndian.Uint16(d.Peek(c.Start+p, 2))
			sz := int64(h & 0x7fff)
			if sz == 0 {
				return name + "|empty-block", fmt.Sprintf("%s table: metadata block %d at +%d has stored length 0", name, i, p-start)
			}
			if p+2+sz > end {
				return name + "|block-overruns-table", fmt.Sprintf("%s table: metadata block %d at +%d (stored length %d) runs past the end of the table at +%d", name, i, p-start, sz, end-start)
			}
			if h&0x8000 != 0 {
				if sz > 8192 {
					return name + "|oversized-block", fmt.Sprintf("%s table: uncompressed metadata block %d at +%d holds %d bytes (limit 8192)", name, i, p-start, sz)
				}
			} else if zlibComp {
				zr, err := zlib.NewReader(bytes.NewReader(d.Peek(c.Start+p+2, int(sz))))
				if err != nil {
					return name + "|bad-zlib", fmt.Sprintf("%s table: metadata block %d at +%d is marked compressed but is not a zlib stream: %v", name, i, p-start, err)
				}
				n, err := io.Copy(io.Discard, zr)
				if err != nil {
					return name + "|bad-zlib", fmt.Sprintf("%s table: metadata block %d at +%d does not inflate: %v", name, i, p-start, err)
				}
				if n > 8192 {
					return name + "|oversized-block", fmt.Sprintf("%s table: metadata block %d at +%d inflates to %d bytes (limit 8192)", name, i, p-start, n)
				}
			}
			p += 2 + sz
		}
		if exact && p != end {
			return name + "|chain-misses-end", fmt.Sprintf("%s table: block chain ends at +%d, table ends at +%d", name, p-start, end-start)
		}
		return "", ""
	}
	if sg, m := walk("inode", tbl["inode"], tbl["dir"], true); sg != "" {
		return sg, m
	}
	// the directory table ends where the next structure begins: the first fragment-table block when
	// there are fragments, otherwise the lowest table start above it
	dirEnd := used
	for _, v := range tbl {
		if v > tbl["dir"] && v < dirEnd {
			dirEnd = v
		}
	}
	if fragT != -1 && binary.LittleEndian.Uint32(sb[16:20]) > 0 {
		if f0 := int64(binary.LittleEndian.Uint64(d.Peek(c.Start+fragT, 8))); f0 > tbl["dir"] && f0 < dirEnd {
			dirEnd = f0
		}
	}
	return walk("dir", tbl["dir"], dirEnd, false)
}
