package checks

import (
	"encoding/json"
	"fmt"
	iofs "io/fs"
	"os"
	"os/exec"
	"path/filepath"
	"regexp"
	"sort"
	"strconv"
	"strings"
	"time"

	"github.com/diskfs/go-diskfs/filesystem"
	"github.com/diskfs/go-diskfs/filesystem/ext4"
	"github.com/diskfs/go-diskfs/filesystem/iso9660"
	"github.com/diskfs/go-diskfs/filesystem/squashfs"

	"verifmc/ev"
	"verifmc/memdev"
)

func init() {
	register("C19", "exploration", C19)
	Replayers["C19"] = func(raw []byte) string {
		var c metaCase
		if err := json.Unmarshal(raw, &c); err != nil {
			return "bad case"
		}
		sig, msg, _ := runMetaCase(&c)
		if sig == "" {
			return "holds"
		}
		return sig + ": " + msg
	}
}

type metaOp struct {
	Kind string `json:"kind"` // chmod chown chtimes write symlink sethidden setsystem setreadonly setarchive
	Path string `json:"path"`
	Arg  string `json:"arg"`
}

type metaCase struct {
	FS  string   `json:"fs"` // ext4 fat12 fat16 fat32 squashfs iso-rr
	Ops []metaOp `json:"ops,omitempty"`
	// finalize-time metadata (squashfs / iso-rr)
	Mode  uint32 `json:"mode,omitempty"`
	UID   int    `json:"uid,omitempty"`
	GID   int    `json:"gid,omitempty"`
	MTime int64  `json:"mtime,omitempty"`
	Link  int    `json:"link_len,omitempty"`
	// ManyIDs > 0: that many extra files, each owned by a uid and a gid of its own (more ids than one block of the id table holds)
	ManyIDs int `json:"many_ids,omitempty"`
}

type attrs struct {
	Kind                  string
	Mode                  uint32
	UID, GID              int64
	MTime, ATime, CTime   int64
	Size                  int64
	Link                  string
	Hidden, System, ROnly bool
	Archive               bool
}

func modeBits(m os.FileMode) uint32 {
	v := uint32(m.Perm())
	if m&os.ModeSetuid != 0 {
		v |= 0o4000
	}
	if m&os.ModeSetgid != 0 {
		v |= 0o2000
	}
	if m&os.ModeSticky != 0 {
		v |= 0o1000
	}
	return v
}

func toFileMode(v uint32) os.FileMode {
	m := os.FileMode(v & 0o777)
	if v&0o4000 != 0 {
		m |= os.ModeSetuid
	}
	if v&0o2000 != 0 {
		m |= os.ModeSetgid
	}
	if v&0o1000 != 0 {
		m |= os.ModeSticky
	}
	return m
}

func kindOfMode(m os.FileMode) string {
	switch {
	case m&os.ModeSymlink != 0:
		return "symlink"
	case m.IsDir():
		return "dir"
	}
	return "file"
}

// snapshotAttrs observes every entry through Stat / ReadLink / the attribute getters.
func snapshotAttrs(fs filesystem.FileSystem, fat bool) (map[string]attrs, error) {
	out := map[string]attrs{}
	err := iofs.WalkDir(fs, ".", func(p string, d iofs.DirEntry, err error) error {
		if err != nil {
			return err
		}
		if p == "." || p == "lost+found" {
			return nil
		}
		fi, err := fs.Stat(p)
		if err != nil {
			return fmt.Errorf("Stat(%s): %w", p, err)
		}
		a := attrs{Kind: kindOfMode(fi.Mode()), Mode: modeBits(fi.Mode()), MTime: tkey(fi.ModTime()), Size: fi.Size()}
		if d.IsDir() {
			a.Kind = "dir"
			a.Size = 0
		}
		switch st := fi.Sys().(type) {
		case *ext4.StatT:
			if st != nil {
				a.UID, a.GID, a.ATime, a.CTime, a.Link = int64(st.UID), int64(st.GID), tkey(st.AccessTime), tkey(st.CreateTime), st.LinkTarget
			}
		case *squashfs.StatT:
			if st != nil {
				a.UID, a.GID, a.Link = int64(st.UID), int64(st.GID), st.LinkTarget
			}
		case *iso9660.StatT:
			if st != nil {
				a.UID, a.GID, a.Link = int64(st.UID), int64(st.GID), st.LinkTarget
			}
		}
		if a.Kind == "symlink" {
			if rl, ok := fs.(interface{ ReadLink(string) (string, error) }); ok {
				if tg, e := rl.ReadLink(p); e == nil {
					a.Link = tg
				} else {
					return fmt.Errorf("ReadLink(%s): %w", p, e)
				}
			}
		}
		if fat {
			a.Mode = 0
			if !d.IsDir() {
				if f, e := fs.OpenFile(p, os.O_RDONLY); e == nil {
					if h, ok := f.(interface {
						IsHidden() bool
						IsSystem() bool
						IsReadOnly() bool
					}); ok {
						a.Hidden, a.System, a.ROnly = h.IsHidden(), h.IsSystem(), h.IsReadOnly()
					}
					f.Close()
				}
			}
			if g, ok := fs.(interface{ GetArchiveBit(string) (bool, error) }); ok {
				a.Archive, _ = g.GetArchiveBit(p)
			}
		}
		out[p] = a
		return nil
	})
	return out, err
}

// tkey is an overflow-free key for an instant: seconds in the high part, nanoseconds in the low 30 bits.
func tkey(t time.Time) int64 { return t.Unix()<<30 | int64(t.Nanosecond()) }

// ---- API-driven metadata (ext4, FAT) ---------------------------------------------------------------------

func runMetaCase(c *metaCase) (sig, msg, outcome string) {
	switch c.FS {
	case "squashfs", "iso-rr":
		return runFinalizeMeta(c)
	}
	cfg := fatCfg{Type: 4, Size: 1 << 20, E4SectorsPerBlock: 2}
	fat := false
	switch c.FS {
	case "fat12":
		cfg, fat = fatCfg{Type: 12, Size: 64 << 10}, true
	case "fat16":
		cfg, fat = fatCfg{Type: 16, Size: 4400 << 10}, true
	case "fat32":
		cfg, fat = fatCfg{Type: 32, Size: 64 << 10}, true
	}
	s, err := newFatSys(cfg, "none")
	if err != nil {
		return "", "", "setup"
	}
	s.dev.Allowed = nil
	// initial tree
	for _, op := range []fsOp{{Kind: "mkdir", Path: "d"}, {Kind: "write", Path: "a", Off: "0", Len: "c+1"}, {Kind: "write", Path: "b", Off: "0", Len: "7"}, {Kind: "create", Path: "d/x"}} {
		if e, _ := s.apply(op); e != nil {
			return "", "", "setup"
		}
	}
	if !fat {
		if e, _ := s.apply(fsOp{Kind: "symlink", Path: "l", Path2: "b"}); e != nil {
			return "", "", "setup"
		}
	}
	before, err := snapshotAttrs(s.fs, fat)
	if err != nil {
		return c.FS + "|snapshot-failed|" + errShape(err.Error()), err.Error(), "bad"
	}
	want := map[string]attrs{}
	for k, v := range before {
		want[k] = v
	}
	tag := c.FS
	for _, op := range c.Ops {
		var oerr error
		a := want[op.Path]
		follow := op.Path
		if a.Kind == "symlink" && (op.Kind == "chmod" || op.Kind == "chown") {
			follow = a.Link // attribute calls follow symbolic links
			a = want[follow]
		}
		pm := guard(func() {
			switch op.Kind {
			case "chmod":
				v, _ := strconv.ParseUint(op.Arg, 8, 32)
				oerr = s.fs.Chmod(op.Path, toFileMode(uint32(v)))
				a.Mode = uint32(v)
			case "chown":
				var u, g int
				fmt.Sscanf(op.Arg, "%d:%d", &u, &g)
				oerr = s.fs.Chown(op.Path, u, g)
				if u != -1 {
					a.UID = int64(uint32(u))
				}
				if g != -1 {
					a.GID = int64(uint32(g))
				}
			case "chtimes":
				var sec, ns int64
				fmt.Sscanf(op.Arg, "%d.%d", &sec, &ns)
				// the three times differ in seconds AND in their sub-second part (and, for values one or two days before a
				// 2^31/2^32-second boundary, in their epoch bits), so that no two of them can be exchanged unnoticed
				ct, at, mt := time.Unix(sec, ns).UTC(), time.Unix(sec+86400, (ns+333333333)%1000000000).UTC(), time.Unix(sec+172800, (ns+777777777)%1000000000).UTC()
				if fat {
					ct, at = mt.Add(-172800*time.Second), mt.Add(-172800*time.Second)
					mt = ct
				}
				oerr = s.fs.Chtimes(op.Path, ct, at, mt)
				a.MTime, a.ATime, a.CTime = tkey(mt), tkey(at), tkey(ct)
				if fat {
					a.MTime = tkey(time.Unix(mt.Unix()/2*2, 0))
					a.ATime, a.CTime = 0, 0
				}
			case "write":
				e, _ := s.apply(fsOp{Kind: "write", Path: op.Path, Off: "eof", Len: op.Arg})
				oerr = e
				n, _ := strconv.Atoi(op.Arg)
				a.Size += int64(n)
				a.MTime = -1 // a content write may update the modification time
			case "hold":
				// a read-write handle on the file stays open across the following calls
				e, _ := s.apply(fsOp{Kind: "hold", Path: op.Path})
				oerr = e
			case "heldwrite":
				e, _ := s.apply(fsOp{Kind: "heldwrite", Off: "eof", Len: op.Arg})
				oerr = e
				n, _ := strconv.Atoi(op.Arg)
				a.Size += int64(n)
				a.MTime = -1
			case "release":
				e, _ := s.apply(fsOp{Kind: "release"})
				oerr = e
			case "symlink":
				n, _ := strconv.Atoi(op.Arg)
				tg := strings.Repeat("t", n)
				if n > 1 && n%2 == 1 {
					tg = "/" + tg[1:]
				}
				oerr = s.fs.Symlink(tg, op.Path)
				a = attrs{Kind: "symlink", Link: tg, MTime: -1, ATime: -1, CTime: -1, Mode: 0o777, Size: int64(n), UID: -1, GID: -1}
			case "sethidden", "setsystem", "setreadonly":
				f, e := s.fs.OpenFile(op.Path, os.O_RDWR)
				if e != nil {
					oerr = e
					return
				}
				defer f.Close()
				on := op.Arg == "on"
				switch op.Kind {
				case "sethidden":
					oerr = f.(interface{ SetHidden(bool) error }).SetHidden(on)
					a.Hidden = on
				case "setsystem":
					oerr = f.(interface{ SetSystem(bool) error }).SetSystem(on)
					a.System = on
				default:
					oerr = f.(interface{ SetReadOnly(bool) error }).SetReadOnly(on)
					a.ROnly = on
				}
			case "setarchive":
				on := op.Arg == "on"
				oerr = s.fs.(interface{ SetArchiveBit(string, bool) error }).SetArchiveBit(op.Path, on)
				a.Archive = on
			}
		})
		if pm != "" {
			return tag + "|" + op.Kind + "|" + pm, fmt.Sprintf("%v: %s", op, pm), "panic"
		}
		if oerr != nil {
			return "", "", "refused:" + op.Kind // values the format cannot hold may be refused
		}
		want[follow] = a
	}
	// observe after re-opening from the bytes
	rfs, rerr := fatRead(cfg, s.dev, true)
	if rerr != nil {
		return tag + "|reopen-failed", rerr.Error(), "bad"
	}
	var got map[string]attrs
	if pm := guard(func() { got, err = snapshotAttrs(rfs, fat) }); pm != "" {
		return tag + "|snapshot|" + pm, pm, "panic"
	}
	if err != nil {
		return tag + "|snapshot-failed|" + errShape(err.Error()), err.Error(), "bad"
	}
	touched := map[string]bool{}
	for _, op := range c.Ops {
		touched[op.Path] = true
	}
	paths := make([]string, 0, len(want))
	for p := range want {
		paths = append(paths, p)
	}
	sort.Strings(paths)
	for _, p := range paths {
		w := want[p]
		g, ok := got[p]
		if !ok {
			return tag + "|entry-vanished", p + " is gone after the attribute calls", "bad"
		}
		what := "set"
		if !touched[p] {
			what = "frame"
		}
		cmp := func(name string, wv, gv int64) string {
			if wv == -1 || wv == gv {
				return ""
			}
			return fmt.Sprintf("%s|%s|%s", tag, what, name)
		}
		var bad string
		switch {
		case g.Kind != w.Kind:
			bad = tag + "|kind-changed"
		case g.Link != w.Link:
			bad = tag + "|" + what + "|link-target"
		case !fat && g.Mode != w.Mode:
			bad = tag + "|" + what + "|mode"
		case g.Hidden != w.Hidden || g.System != w.System || g.ROnly != w.ROnly || g.Archive != w.Archive:
			bad = tag + "|" + what + "|fat-flags"
		}
		if bad == "" {
			for _, f := range []struct {
				n    string
				w, g int64
			}{{"uid", w.UID, g.UID}, {"gid", w.GID, g.GID}, {"mtime", w.MTime, g.MTime}, {"atime", w.ATime, g.ATime}, {"ctime", w.CTime, g.CTime}} {
				if fat && (f.n == "atime" || f.n == "ctime" || f.n == "uid" || f.n == "gid") {
					continue
				}
				if b := cmp(f.n, f.w, f.g); b != "" {
					bad = b
					break
				}
			}
		}
		if bad != "" {
			return bad, fmt.Sprintf("%s after %v: want %+v got %+v", p, c.Ops, w, g), "bad"
		}
	}
	// second opinion for ext4: debugfs stat
	if !fat && len(c.Ops) > 0 {
		if s2, m2 := debugfsCheck(s.dev, cfg, want); s2 != "" {
			return tag + "|debugfs|" + s2, m2, "bad"
		}
	}
	return "", "", "ok"
}

var reDbgMode = regexp.MustCompile(`Mode:\s+(\d+)`)
var reDbgUser = regexp.MustCompile(`User:\s+(\d+)\s+Group:\s+(\d+)`)

func debugfsCheck(d *memdev.Dev, cfg fatCfg, want map[string]attrs) (sig, msg string) {
	dir := os.Getenv("VERIF_SCRATCH")
	if dir == "" {
		dir = os.TempDir()
	}
	img := filepath.Join(dir, fmt.Sprintf("c19-%d.img", e2seq.Add(1)))
	if err := os.WriteFile(img, d.Bytes(cfg.Start, cfg.Start+cfg.Size), 0o600); err != nil {
		return "", ""
	}
	defer os.Remove(img)
	for p, w := range want {
		if w.Kind == "symlink" {
			continue
		}
		out, err := exec.Command("/usr/sbin/debugfs", "-R", "stat \"/"+p+"\"", img).Output()
		if err != nil {
			continue
		}
		if m := reDbgMode.FindSubmatch(out); m != nil {
			v, _ := strconv.ParseUint(string(m[1]), 8, 32)
			if uint32(v)&0o7777 != w.Mode {
				return "mode", fmt.Sprintf("debugfs reports mode %o for %s, the library was told %o", v&0o7777, p, w.Mode)
			}
		}
		if m := reDbgUser.FindSubmatch(out); m != nil && w.UID >= 0 {
			u, _ := strconv.ParseInt(string(m[1]), 10, 64)
			g, _ := strconv.ParseInt(string(m[2]), 10, 64)
			if u != w.UID || g != w.GID {
				return "owner", fmt.Sprintf("debugfs reports owner %d:%d for %s, expected %d:%d", u, g, p, w.UID, w.GID)
			}
		}
	}
	return "", ""
}

// ---- finalize-time metadata (squashfs, Rock Ridge ISO) -----------------------------------------------------

func runFinalizeMeta(c *metaCase) (sig, msg, outcome string) {
	t := &treeSpec{Dirs: []string{"dir"}, Files: map[string][]byte{"file": patternBytes(1, 100), "dir/inner": patternBytes(2, 5), "other": patternBytes(3, 9)}}
	linkTarget := ""
	if c.Link > 0 {
		linkTarget = strings.Repeat("t", c.Link)
		if c.Link%2 == 1 && c.Link > 1 {
			linkTarget = "/" + linkTarget[1:]
		}
		t.Links = map[string]string{"lnk": linkTarget}
	}
	if c.ManyIDs > 0 {
		t.Dirs = append(t.Dirs, "many")
		for i := 0; i < c.ManyIDs; i++ {
			t.Files[fmt.Sprintf("many/u%05d", i)] = nil
		}
	}
	mt := time.Unix(c.MTime, 0)
	prep := func(ws string) error {
		if err := populateWorkspace(ws, t); err != nil {
			return err
		}
		for i := 0; i < c.ManyIDs; i++ {
			if err := os.Chown(filepath.Join(ws, fmt.Sprintf("many/u%05d", i)), 3000+i, 70000+i); err != nil {
				return err
			}
		}
		for _, p := range []string{"file", "dir"} {
			fp := filepath.Join(ws, p)
			// chown first: the kernel clears setuid/setgid when the owner changes
			if err := os.Chown(fp, c.UID, c.GID); err != nil {
				return err
			}
			if err := os.Chmod(fp, toFileMode(c.Mode)|map[bool]os.FileMode{true: os.ModeDir, false: 0}[p == "dir"]); err != nil {
				return err
			}
			if err := os.Chtimes(fp, mt, mt); err != nil {
				return err
			}
		}
		return nil
	}
	var fs filesystem.FileSystem
	var err error
	size := int64(4 << 20)
	d := memdev.New(size + 64<<10)
	if pm := guard(func() {
		if c.FS == "squashfs" {
			var sfs *squashfs.FileSystem
			sfs, err = squashfs.Create(be(d, false), size, 0, 4096)
			if err != nil {
				return
			}
			defer os.RemoveAll(sfs.Workspace())
			if err = prep(sfs.Workspace()); err != nil {
				return
			}
			if err = sfs.Finalize(squashfs.FinalizeOptions{}); err != nil {
				return
			}
			fs, err = squashfs.Read(be(d, true), size, 0, 4096)
		} else {
			var ifs *iso9660.FileSystem
			ifs, err = iso9660.Create(be(d, false), size, 0, 2048, "")
			if err != nil {
				return
			}
			defer os.RemoveAll(ifs.Workspace())
			if err = prep(ifs.Workspace()); err != nil {
				return
			}
			if err = ifs.Finalize(iso9660.FinalizeOptions{RockRidge: true}); err != nil {
				return
			}
			fs, err = iso9660.Read(be(d, true), size, 0, 2048)
		}
	}); pm != "" {
		return c.FS + "|finalize|" + pm, pm, "panic"
	}
	if err != nil {
		return "", "", "refused:" + errShape(err.Error())
	}
	var got map[string]attrs
	if pm := guard(func() { got, err = snapshotAttrs(fs, false) }); pm != "" {
		return c.FS + "|snapshot|" + pm, pm, "panic"
	}
	if err != nil {
		return c.FS + "|snapshot-failed|" + errShape(err.Error()), err.Error(), "bad"
	}
	for _, p := range []string{"file", "dir"} {
		g, ok := got[p]
		if !ok {
			return c.FS + "|entry-missing", p, "bad"
		}
		wantKind := map[string]string{"file": "file", "dir": "dir"}[p]
		switch {
		case g.Kind != wantKind:
			return c.FS + "|kind-changed", fmt.Sprintf("%s is reported as %s", p, g.Kind), "bad"
		case g.Mode != c.Mode:
			return c.FS + "|finalize|mode", fmt.Sprintf("%s: mode %o in the workspace, %o reported from the image", p, c.Mode, g.Mode), "bad"
		case g.UID != int64(c.UID) || g.GID != int64(c.GID):
			return c.FS + "|finalize|owner", fmt.Sprintf("%s: owner %d:%d in the workspace, %d:%d reported from the image", p, c.UID, c.GID, g.UID, g.GID), "bad"
		case g.MTime>>30 != c.MTime:
			return c.FS + "|finalize|mtime", fmt.Sprintf("%s: mtime %d in the workspace, %d reported from the image", p, c.MTime, g.MTime>>30), "bad"
		}
	}
	for i := 0; i < c.ManyIDs; i++ {
		p := fmt.Sprintf("many/u%05d", i)
		g, ok := got[p]
		if !ok {
			return c.FS + "|many-ids|entry-missing", p + " is not reported from the image", "bad"
		}
		if g.UID != int64(3000+i) || g.GID != int64(70000+i) {
			return c.FS + "|finalize|owner|many-ids", fmt.Sprintf("%s: owner %d:%d in the workspace, %d:%d reported from the image (%d distinct ids in the image)", p, 3000+i, 70000+i, g.UID, g.GID, 2*c.ManyIDs+2), "bad"
		}
	}
	if o := got["other"]; o.Kind != "file" || o.Mode != 0o644 {
		return c.FS + "|frame|other-file", fmt.Sprintf("an untouched file is reported as %s mode %o", o.Kind, o.Mode), "bad"
	}
	if c.Link > 0 {
		l, ok := got["lnk"]
		if !ok || l.Kind != "symlink" {
			return c.FS + "|finalize|symlink-kind", fmt.Sprintf("the symlink is reported as %+v", l), "bad"
		}
		if l.Link != linkTarget {
			return c.FS + "|finalize|link-target", fmt.Sprintf("link target of %d bytes reads back as %d bytes (%q...)", len(linkTarget), len(l.Link), clip(l.Link)), "bad"
		}
	}
	return "", "", "ok"
}

func enumC19(quick bool) []metaCase {
	var cs []metaCase
	// ext4: one-hot permission/special bits and a few combinations
	var modes []string
	for b := 0; b < 12; b++ {
		modes = append(modes, strconv.FormatUint(1<<b, 8))
	}
	modes = append(modes, "0", "777", "7777", "4750", "2755", "1777")
	ids := []string{"0:0", "1:1", "65535:65535", "65536:65536", "2147483647:2147483647", "4294967295:4294967295", "-1:7", "7:-1", "100000:1000", "1000:100000"}
	times := []string{"-2147483648.0", "-1.999999999", "0.0", "0.1", "2147483647.999999999", "2147483648.0", "4294967295.0", "4294967296.0", "15032385535.0", "1700000001.123456789"}
	for _, target := range []string{"a", "d", "l"} {
		for _, m := range modes {
			cs = append(cs, metaCase{FS: "ext4", Ops: []metaOp{{"chmod", target, m}}})
		}
		for _, id := range ids {
			cs = append(cs, metaCase{FS: "ext4", Ops: []metaOp{{"chown", target, id}}})
		}
		if target != "l" {
			// also: atime before and mtime after the 2038 (2^31 s) and 2106 (2^32 s) boundaries
			for _, t := range append(append([]string{}, times...), "2147383648.1", "4294867296.2") {
				cs = append(cs, metaCase{FS: "ext4", Ops: []metaOp{{"chtimes", target, t}}})
			}
		}
	}
	for _, n := range []int{1, 59, 60, 61, 255, 1023, 4095} {
		cs = append(cs, metaCase{FS: "ext4", Ops: []metaOp{{"symlink", "newlink", strconv.Itoa(n)}}})
	}
	// ext4 histories: all ordered pairs (thorough: triples on a smaller menu) of attribute calls and content writes on two files
	menu := []metaOp{{"chmod", "a", "4750"}, {"chmod", "a", "750"}, {"chmod", "a", "640"}, {"chmod", "d", "777"}, {"chmod", "d", "1777"}, {"chmod", "b", "1777"}, {"chown", "a", "70000:5"}, {"chown", "b", "-1:9"}, {"chtimes", "a", "2147483648.5"}, {"chtimes", "b", "1.0"},
		{"write", "a", "1025"}, {"write", "b", "1"}, {"chmod", "d", "2775"}, {"chmod", "l", "600"}}
	for _, x := range menu {
		for _, y := range menu {
			cs = append(cs, metaCase{FS: "ext4", Ops: []metaOp{x, y}})
			if !quick && x.Path != y.Path {
				for _, z := range menu[:10] {
					cs = append(cs, metaCase{FS: "ext4", Ops: []metaOp{x, y, z}})
				}
			}
		}
	}
	// the same attribute calls made by path while a read-write handle on the file is open, which is closed afterwards (with and
	// without a write through that handle before or after the call)
	for _, x := range menu[:10] {
		if x.Path != "a" && x.Path != "b" {
			continue
		}
		h, w, rel := metaOp{"hold", x.Path, ""}, metaOp{"heldwrite", x.Path, "700"}, metaOp{"release", x.Path, ""}
		cs = append(cs, metaCase{FS: "ext4", Ops: []metaOp{h, x, rel}}, metaCase{FS: "ext4", Ops: []metaOp{h, w, x, rel}}, metaCase{FS: "ext4", Ops: []metaOp{h, x, w, rel}})
	}
	for _, fs := range []string{"fat12", "fat32"} {
		for _, k := range []string{"sethidden", "setreadonly", "setarchive"} {
			h, w, rel := metaOp{"hold", "a", ""}, metaOp{"heldwrite", "a", "700"}, metaOp{"release", "a", ""}
			cs = append(cs, metaCase{FS: fs, Ops: []metaOp{h, {k, "a", "on"}, rel}}, metaCase{FS: fs, Ops: []metaOp{h, {k, "a", "on"}, w, rel}})
		}
		h, w, rel := metaOp{"hold", "a", ""}, metaOp{"heldwrite", "a", "700"}, metaOp{"release", "a", ""}
		cs = append(cs, metaCase{FS: fs, Ops: []metaOp{h, {"chtimes", "a", "1700000001.0"}, rel}}, metaCase{FS: fs, Ops: []metaOp{h, w, {"chtimes", "b", "1700000001.0"}, rel}})
	}
	// FAT: times over the representable range and every subset of the attribute flags
	fatTimes := []string{"315532800.0", "315532801.0", "315532803.0", "1700000001.0", "4354819198.0", "2147483648.0", "946684799.0"}
	for _, fs := range []string{"fat12", "fat16", "fat32"} {
		if quick && fs == "fat16" {
			continue
		}
		for _, t := range fatTimes {
			for _, p := range []string{"a", "d", "d/x"} {
				cs = append(cs, metaCase{FS: fs, Ops: []metaOp{{"chtimes", p, t}}})
			}
		}
		for mask := 0; mask < 16; mask++ {
			var ops []metaOp
			for i, k := range []string{"sethidden", "setsystem", "setreadonly", "setarchive"} {
				if mask&(1<<i) != 0 {
					ops = append(ops, metaOp{k, "a", "on"})
				}
			}
			if len(ops) > 0 {
				cs = append(cs, metaCase{FS: fs, Ops: ops})
				cs = append(cs, metaCase{FS: fs, Ops: append(append([]metaOp{}, ops...), metaOp{"write", "a", "600"}, metaOp{ops[0].Kind, "a", "off"})})
				cs = append(cs, metaCase{FS: fs, Ops: append(append([]metaOp{}, ops...), metaOp{"chtimes", "b", "1700000001.0"}, metaOp{"write", "b", "3"})})
			}
		}
	}
	// squashfs: more distinct owners than one metadata block of the id table holds (2048)
	cs = append(cs, metaCase{FS: "squashfs", Mode: 0o644, UID: 1, GID: 2, MTime: 1700000001, ManyIDs: 1100})
	if !quick {
		cs = append(cs, metaCase{FS: "squashfs", Mode: 0o644, UID: 1, GID: 2, MTime: 1700000001, ManyIDs: 1023}, metaCase{FS: "squashfs", Mode: 0o644, UID: 1, GID: 2, MTime: 1700000001, ManyIDs: 2100})
	}
	// squashfs / Rock Ridge ISO: workspace metadata at finalize time
	fmodes := []uint32{0, 0o644, 0o755, 0o777, 0o4755, 0o2755, 0o1777, 0o7777, 0o400, 0o001}
	owners := [][2]int{{0, 0}, {1, 2}, {65535, 65535}, {65536, 70000}, {100000, 1000}, {2147483647, 2147483646}}
	mtimes := []int64{0, 1, 1700000001, 2147483647, 2147483648, 4102444800}
	links := []int{0, 1, 59, 60, 255, 1023, 4095}
	for _, fs := range []string{"squashfs", "iso-rr"} {
		for i, m := range fmodes {
			cs = append(cs, metaCase{FS: fs, Mode: m, UID: owners[i%len(owners)][0], GID: owners[i%len(owners)][1], MTime: mtimes[i%len(mtimes)], Link: links[i%len(links)]})
		}
		for i, o := range owners {
			cs = append(cs, metaCase{FS: fs, Mode: 0o640, UID: o[0], GID: o[1], MTime: mtimes[(i+2)%len(mtimes)], Link: links[(i+3)%len(links)]})
		}
		for i, t := range mtimes {
			cs = append(cs, metaCase{FS: fs, Mode: 0o600, UID: 3, GID: 4, MTime: t, Link: links[(i+1)%len(links)]})
		}
		for _, l := range links {
			cs = append(cs, metaCase{FS: fs, Mode: 0o644, UID: 5, GID: 6, MTime: 1700000000, Link: l})
		}
	}
	return cs
}

func C19(r *ev.Run) {
	cases := enumC19(r.Quick())
	outcomes := newDistinct()
	ok := newDistinct()
	done := parallel(len(cases), r.OutOfTime, func(i int) {
		c := &cases[i]
		sig, msg, out := runMetaCase(c)
		outcomes.add(out)
		if out == "ok" {
			b, _ := json.Marshal(c)
			ok.add(string(b))
		}
		if sig != "" {
			r.Report("c19|"+sig, msg, c)
		}
		if i%(len(cases)/6+1) == 0 {
			r.Sample(c)
		}
	})
	r.Set("evaluations", int64(done))
	r.Set("distinct_nontrivial", int64(ok.n()))
	r.Set("distinct_outcomes", outcomes.snapshot())
	r.Set("rule", "ext4: Chmod with each of the 12 permission/special bits alone and 6 combinations, Chown over {0,1,65535,65536,2^31-1,2^32-1,-1(keep)} incl. uid/gid with different upper halves, Chtimes over {1901, -1 ns, 0, 2038 boundary, 2106 boundary, 2446, ns fractions}, each on a file, a directory and through a symlink; Symlink targets of 1/59/60/61/255/1023/4095 bytes; all ordered pairs (thorough: triples) over a menu of 11 attribute calls and content writes on two files, a directory and a symlink. FAT12/16/32: Chtimes over 1980-01-01, odd seconds, 2107-12-31 23:59:58 and values in between on a file, a directory and a nested file; every subset of {Hidden, System, ReadOnly, Archive}, also interleaved with content writes and calls on another file. squashfs and Rock Ridge ISO: workspace files and directories with 10 modes x 6 owners x 6 mtimes x 7 link-target lengths (rotated). After re-opening the image every attribute reported by Stat / Sys / ReadLink / the FAT getters must equal what was set (to the format's resolution), every other attribute of every entry must be unchanged, kinds never change; ext4 additionally cross-checked with debugfs stat. non-trivial = distinct cases the format accepted and that compared equal end to end")
	r.Set("exhaustive", done == len(cases))
	r.Assume("values a format cannot represent may be refused; only accepted calls are judged")
}
