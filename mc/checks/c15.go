package checks

import (
	"encoding/binary"
	"fmt"
	"hash/crc32"
	"sort"
	"strings"

	"github.com/diskfs/go-diskfs/partition"
	"github.com/diskfs/go-diskfs/partition/gpt"
	"github.com/diskfs/go-diskfs/partition/mbr"

	"verifmc/ev"
	"verifmc/memdev"
	"verifmc/oracle/gptck"
)

func init() {
	register("C15", "fault_enumeration", C15)
	corruptTargets["c15"] = func(quick bool) corruptTarget { return newC15Target(quick) }
	Replayers["C15"] = replayCorrupt
}

type bytePatch struct {
	Off  int64  `json:"off"`
	Data []byte `json:"data"`
}

type c15Case struct {
	Base         int         `json:"base"`
	Patches      []bytePatch `json:"patches,omitempty"`
	Fix          int         `json:"fix"` // 0 raw, 1 recompute header CRC, 2 recompute array CRC + header CRC
	BreakPrimary bool        `json:"break_primary,omitempty"`
	Truncate     int64       `json:"truncate"` // -1 = no
	Label        string      `json:"label"`
}

type c15Base struct {
	Name string
	Dev  *memdev.Dev
	LSS  int
	Size int64
	GPT  bool
}

type c15Target struct {
	bases []c15Base
	quick []c15Case
	full  []c15Case
}

// c15Name: the first partition's name fills the 72-byte field completely (36 UTF-16 units, no terminator), which is
// a legal on-disk state; the others are short and contain a surrogate pair
func c15Name(i int) string {
	if i == 0 {
		return "p0-\U0001F4BE" + strings.Repeat("x", 31)
	}
	return fmt.Sprintf("p%d-\U0001F4BE", i)
}

func buildC15Bases() []c15Base {
	var out []c15Base
	mk := func(name string, lss int, sectors int64, nparts int) {
		size := sectors * int64(lss)
		d := memdev.New(size)
		t := &gpt.Table{LogicalSectorSize: lss, PhysicalSectorSize: lss, ProtectiveMBR: true, GUID: fixedDiskGUID}
		first, last := gptGeometry(size, lss)
		for i := 0; i < nparts; i++ {
			w := (last - first + 1) / uint64(nparts)
			t.Partitions = append(t.Partitions, &gpt.Partition{Index: i + 1, Start: first + uint64(i)*w, End: first + uint64(i+1)*w - 1, Type: gpt.LinuxFilesystem, Name: c15Name(i), GUID: partGUID(i + 1), Attributes: uint64(i)})
		}
		if err := t.Write(d, size); err != nil {
			panic(err)
		}
		out = append(out, c15Base{name, d, lss, size, true})
	}
	mk("gpt512-1part", 512, 200, 1)
	mk("gpt512-4part", 512, 256, 4)
	mk("gpt4096-2part", 4096, 40, 2)
	// MBR with four partitions
	md := memdev.New(64 << 10)
	mt := &mbr.Table{LogicalSectorSize: 512, PhysicalSectorSize: 512, Partitions: []*mbr.Partition{
		{Type: mbr.Linux, Start: 1, Size: 10, Bootable: true}, {Type: mbr.Fat32LBA, Start: 11, Size: 20}, {Type: mbr.Linux, Start: 40, Size: 1}, {Type: mbr.Type(0xEE), Start: 50, Size: 70}}}
	if err := mt.Write(md, 64<<10); err != nil {
		panic(err)
	}
	out = append(out, c15Base{"mbr-4part", md, 512, 64 << 10, false})
	// protective MBR only (GPT headers wiped)
	pd := out[0].Dev.Clone()
	pd.Poke(make([]byte, 512), 512)
	pd.Poke(make([]byte, 512), out[0].Size-512)
	out = append(out, c15Base{"pmbr-only", pd, 512, out[0].Size, false})
	return out
}

func consumedOffsets(b c15Base, breakPrimary bool) []memdev.Range {
	d := b.Dev.Clone()
	if breakPrimary {
		d.Poke([]byte("XXXXXXXX"), int64(b.LSS))
	}
	d.TrackReads = true
	_, _ = partition.Read(be(d, true), b.LSS, b.LSS)
	_, _ = mbr.Read(be(d, true), b.LSS, b.LSS)
	rs := append([]memdev.Range(nil), d.ReadRanges...)
	sort.Slice(rs, func(i, j int) bool { return rs[i].Lo < rs[j].Lo })
	var m []memdev.Range
	for _, r := range rs {
		if r.Hi > b.Size {
			r.Hi = b.Size
		}
		if len(m) > 0 && r.Lo <= m[len(m)-1].Hi {
			if r.Hi > m[len(m)-1].Hi {
				m[len(m)-1].Hi = r.Hi
			}
			continue
		}
		m = append(m, r)
	}
	return m
}

var lePatterns = func(w int, devSize int64) [][]byte {
	mk := func(f func(b []byte)) []byte { b := make([]byte, w); f(b); return b }
	ps := [][]byte{
		mk(func(b []byte) {}),
		mk(func(b []byte) {
			for i := range b {
				b[i] = 0xFF
			}
		}),
		mk(func(b []byte) {
			for i := range b {
				b[i] = 0xFF
			}
			b[w-1] = 0x7F
		}),
		mk(func(b []byte) { b[w-1] = 0x80 }),
	}
	// sizes around one logical block (a length field that is larger than the block it lives in, but not absurd)
	for _, v := range []int64{511, 512, 513, 4095, 4096, 4097} {
		b := make([]byte, 8)
		binary.LittleEndian.PutUint64(b, uint64(v))
		ps = append(ps, b[:w])
	}
	if w >= 4 {
		for _, v := range []int64{devSize, devSize + 1, devSize / 512, devSize/512 + 1} {
			b := make([]byte, 8)
			binary.LittleEndian.PutUint64(b, uint64(v))
			ps = append(ps, b[:w])
		}
	}
	return ps
}

func newC15Target(quickTier bool) *c15Target {
	t := &c15Target{bases: buildC15Bases()}
	for _, quick := range []bool{quickTier} {
		var cs []c15Case
		for bi, b := range t.bases {
			if quick && bi == 1 {
				continue
			}
			for _, bp := range []bool{false, true} {
				if !b.GPT && bp {
					continue
				}
				regions := consumedOffsets(b, bp)
				for _, rg := range regions {
					// when the primary is deliberately broken, only the backup region is of interest
					if bp && rg.Hi <= int64(b.LSS)*2+16384 {
						continue
					}
					for o := rg.Lo; o < rg.Hi; o++ {
						inHeader := b.GPT && ((o >= int64(b.LSS) && o < int64(b.LSS)+92) || (o >= b.Size-int64(b.LSS) && o < b.Size-int64(b.LSS)+92))
						inMBR := o >= 440 && o < 512
						arrayStart := int64(2 * b.LSS)
						if bp {
							arrayStart = b.Size - int64(b.LSS) - 16384
						}
						inArray := b.GPT && o >= arrayStart && o < arrayStart+16384
						rel := o - arrayStart
						if quick && inArray && !(rel < 4*128 || rel >= 127*128) {
							continue
						}
						if quick && !inHeader && !inMBR && !inArray {
							// padding of the header sector / boot code: one probe per 64 bytes
							if o%64 != 0 {
								continue
							}
						}
						orig := b.Dev.Peek(o, 1)[0]
						fixes := []int{0}
						if inHeader {
							fixes = []int{0, 1}
						} else if inArray {
							fixes = []int{0, 2}
						}
						vals := []byte{0x00, 0x01, 0x7F, 0x80, 0xFF}
						for k := 0; k < 8; k++ {
							vals = append(vals, orig^(1<<k)) // every single-bit flip
						}
						seenV := map[byte]bool{orig: true}
						for _, v := range vals {
							if seenV[v] {
								continue
							}
							seenV[v] = true
							for _, fx := range fixes {
								cs = append(cs, c15Case{Base: bi, Patches: []bytePatch{{o, []byte{v}}}, Fix: fx, BreakPrimary: bp, Truncate: -1, Label: "byte"})
							}
						}
						if inHeader || inMBR || (!quick && inArray && rel%128 < 56) {
							for _, w := range []int{2, 4, 8} {
								if o+int64(w) > rg.Hi {
									continue
								}
								for _, pat := range lePatterns(w, b.Size) {
									for _, fx := range fixes {
										cs = append(cs, c15Case{Base: bi, Patches: []bytePatch{{o, pat}}, Fix: fx, BreakPrimary: bp, Truncate: -1, Label: fmt.Sprintf("le%d", w*8)})
									}
								}
							}
						}
					}
				}
				if b.GPT {
					// all pairs over the size-determining header fields x boundary values
					type fld struct {
						off, w int
					}
					flds := []fld{{80, 4}, {84, 4}, {72, 8}, {24, 8}, {32, 8}, {40, 8}, {48, 8}}
					vals := []uint64{0, 1, 127, 128, 129, 1<<31 - 1, 1 << 31, 1<<32 - 1, 1 << 63, ^uint64(0), 1 << 56, 1<<25 + 1, uint64(b.Size / int64(b.LSS)), uint64(b.Size/int64(b.LSS)) - 1}
					hdr := int64(b.LSS)
					if bp {
						hdr = b.Size - int64(b.LSS)
					}
					enc := func(f fld, v uint64) []byte {
						x := make([]byte, 8)
						binary.LittleEndian.PutUint64(x, v)
						return x[:f.w]
					}
					for i := 0; i < len(flds); i++ {
						for j := i + 1; j < len(flds); j++ {
							for _, vi := range vals {
								for _, vj := range vals {
									if quick && (i > 2 && j > 2) && (vi != vals[9] && vj != vals[0]) {
										continue
									}
									for _, fx := range []int{1, 2} {
										cs = append(cs, c15Case{Base: bi, Patches: []bytePatch{{hdr + int64(flds[i].off), enc(flds[i], vi)}, {hdr + int64(flds[j].off), enc(flds[j], vj)}}, Fix: fx, BreakPrimary: bp, Truncate: -1, Label: "pair"})
									}
								}
							}
						}
					}
				}
			}
			// truncated devices
			for _, tr := range []int64{0, 1, 511, 512, 513, 1023, 1024, int64(b.LSS), int64(2 * b.LSS), int64(2*b.LSS) - 1, int64(2*b.LSS) + 16383, int64(2*b.LSS) + 16384, b.Size - int64(b.LSS), b.Size - 1, b.Size - int64(b.LSS) - 16384} {
				if tr >= 0 && tr < b.Size {
					cs = append(cs, c15Case{Base: bi, Truncate: tr, Label: "truncate"})
					cs = append(cs, c15Case{Base: bi, Truncate: tr, BreakPrimary: true, Label: "truncate"})
				}
			}
		}
		if quick {
			t.quick = cs
		} else {
			t.full = cs
		}
	}
	return t
}

func (t *c15Target) cases(quick bool) []c15Case {
	if quick {
		return t.quick
	}
	return t.full
}
func (t *c15Target) Count(quick bool) int { return len(t.cases(quick)) }
func (t *c15Target) Describe(i int, quick bool) any {
	c := t.cases(quick)[i]
	return map[string]any{"base": t.bases[c.Base].Name, "case": c}
}

func fixGPTCRC(d *memdev.Dev, hdrOff int64, lss int, fixArray bool) {
	h := d.Peek(hdrOff, 92)
	if fixArray {
		lba := binary.LittleEndian.Uint64(h[72:80])
		cnt := binary.LittleEndian.Uint32(h[80:84])
		esz := binary.LittleEndian.Uint32(h[84:88])
		tot := uint64(cnt) * uint64(esz)
		if tot <= 1<<20 && lba < 1<<40 {
			ab := d.Peek(int64(lba)*int64(lss), int(tot))
			binary.LittleEndian.PutUint32(h[88:92], crc32.ChecksumIEEE(ab))
		}
	}
	copy(h[16:20], []byte{0, 0, 0, 0})
	binary.LittleEndian.PutUint32(h[16:20], crc32.ChecksumIEEE(h))
	d.Poke(h, hdrOff)
}

func (t *c15Target) Run(i int, quick bool) corruptResult {
	c := t.cases(quick)[i]
	b := t.bases[c.Base]
	d := b.Dev.Clone()
	if c.BreakPrimary {
		d.Poke([]byte("XXXXXXXX"), int64(b.LSS))
	}
	hdrOff := int64(b.LSS)
	for _, p := range c.Patches {
		d.Poke(p.Data, p.Off)
		if p.Off >= b.Size/2 {
			hdrOff = b.Size - int64(b.LSS)
		}
	}
	if b.GPT && c.Fix > 0 {
		fixGPTCRC(d, hdrOff, b.LSS, c.Fix == 2)
	}
	if c.Truncate >= 0 {
		d.Truncate(c.Truncate)
	}
	d.ReadBudget = 20000
	a0 := allocBytes()
	var gt *gpt.Table
	var gerr error
	var pt partition.Table
	var perr error
	var merr error
	pm := guard(func() {
		gt, gerr = gpt.Read(be(d, true), b.LSS, b.LSS)
		pt, perr = partition.Read(be(d, true), b.LSS, b.LSS)
		_, merr = mbr.Read(be(d, true), b.LSS, b.LSS)
	})
	a1 := allocBytes()
	res := corruptResult{}
	switch {
	case pm != "":
		return corruptResult{Sig: "panic|" + pm, Msg: pm, Outcome: "panic"}
	case d.Exceeded:
		return corruptResult{Sig: "read-budget", Msg: fmt.Sprintf("reader issued more than %d device reads", d.ReadBudget), Outcome: "loop"}
	}
	limit := uint64(64*b.Size + 32<<20)
	if a1-a0 > limit {
		return corruptResult{Sig: "allocation", Msg: fmt.Sprintf("reading allocated %d bytes for a %d-byte device (bound %d)", a1-a0, b.Size, limit), Outcome: "alloc"}
	}
	_ = merr
	_ = perr
	_ = pt
	if gerr != nil {
		res.Outcome = "error"
		if !strings.Contains(gerr.Error(), "Signature") && !strings.Contains(gerr.Error(), "Checksum") {
			res.Nontrivial = true // got past signature and CRC validation
			res.Outcome = "error-late"
		}
		return res
	}
	res.Nontrivial = true
	res.Outcome = "table"
	if gt.RecoveredFromBackup {
		res.Outcome = "table-from-backup"
	}
	// any table returned lists only partitions decoded from CRC-valid data
	lba := uint64(1)
	if gt.RecoveredFromBackup {
		lba = uint64(d.Size()/int64(b.LSS)) - 1
	}
	h, err := gptck.ParseHeader(d, b.LSS, lba, 1<<22, false)
	if err != nil || h == nil {
		// the library accepted a header the independent parser cannot even decode
		return corruptResult{Sig: "crc-valid-data|undecodable-header", Msg: fmt.Sprintf("table returned but independent parser says: %v", err), Outcome: "bad-table", Nontrivial: true}
	}
	if !h.HeaderCRCOK || !h.ArrayCRCOK {
		return corruptResult{Sig: "crc-valid-data|crc", Msg: fmt.Sprintf("table returned from a copy whose header CRC ok=%v array CRC ok=%v", h.HeaderCRCOK, h.ArrayCRCOK), Outcome: "bad-table", Nontrivial: true}
	}
	if len(h.Entries) != len(gt.Partitions) {
		return corruptResult{Sig: "crc-valid-data|entries", Msg: fmt.Sprintf("table lists %d partitions, the CRC-valid array holds %d", len(gt.Partitions), len(h.Entries)), Outcome: "bad-table", Nontrivial: true}
	}
	for k, e := range h.Entries {
		g := gt.Partitions[k]
		if g.Index != e.Index || g.Start != e.First || g.End != e.Last || !strings.EqualFold(string(g.Type), e.TypeGUID) || !strings.EqualFold(g.GUID, e.GUID) || g.Attributes != e.Attributes || g.Name != e.Name {
			return corruptResult{Sig: "crc-valid-data|entry-content", Msg: fmt.Sprintf("partition %d differs from the CRC-valid array entry", e.Index), Outcome: "bad-table", Nontrivial: true}
		}
	}
	return res
}

func C15(r *ev.Run) {
	st, n := runCorrupt(r, "c15", "c15")
	r.Set("evaluations", st.done)
	r.Set("distinct_nontrivial", st.nontrivial)
	r.Set("cases_enumerated", int64(n))
	r.Set("distinct_outcomes", st.outcomes)
	r.Set("worker_deaths", int64(st.deaths))
	r.Set("rule", "base images {GPT 512B 1 and 4 partitions, GPT 4096B, MBR 4 partitions, protective-MBR-only}; sites = every byte offset the clean reader and the backup-fallback reader consume (measured with a read-tracking device); per site single-byte values {00,01,7F,80,FF, every single-bit flip of b} and little-endian 2/4/8-byte patterns {0,all-ones,max-signed,sign-bit,511,512,513,4095,4096,4097,device size(+1) in bytes and sectors}, each raw and with header/array CRC recomputed by stdlib hash/crc32; all pairs over {entry count, entry size, array LBA, my LBA, alternate LBA, first/last usable} x 14 boundary values with CRCs fixed; every truncation boundary; every case run in a worker process under RLIMIT_AS=2GiB with panic, read-budget and allocation (64 x device + 32 MiB) oracles. Cases are distinct by construction (site,pattern,fix); non-trivial = the reader got past signature and checksum validation (returned a table or failed later)")
	r.Set("exhaustive", st.done >= int64(n))
	r.Assume("RLIMIT_AS of 2 GiB makes an out-of-proportion allocation fatal; the parent attributes a worker death to the case in flight and requires it to reproduce twice")
}
