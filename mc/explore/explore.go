// Package explore is Engine A: explicit-state breadth-first search over operation histories.
// A state is the history that reaches it (real objects cannot be cloned): a successor is computed by replaying
// the history on a fresh instance and applying one more letter. States are deduplicated on a caller-supplied key.
package explore

import (
	"fmt"
	"runtime"
	"sync"
)

type Viol struct {
	Sig, Msg string
}

type Outcome struct {
	Key   [32]byte
	Class string // outcome class of the last letter (accepted / error class), for statistics
	Viols []Viol
	Prune bool   // do not explore beyond this state
	Aux   string // free-form observation handed to Scenario.OnResult
}

type Scenario struct {
	Name      string
	Letters   []string                         // printable alphabet, simplest first
	Run       func(hist []uint16) Outcome      // replay hist from scratch; judge the last letter
	MaxDepth  int                              // deviation bound
	MaxStates int                              // safety cap on the number of states (0 = none)
	OnResult  func(hist []uint16, out Outcome) // optional, called sequentially for every executed transition
}

type Stats struct {
	States      int64
	Transitions int64
	MaxDepth    int
	Fixpoint    bool
	Capped      bool
	Classes     map[string]int64
	PerDepth    []int64
	Samples     [][]string
	Replayed    int
}

type Reporter interface {
	Report(sig, msg string, cas any) bool
	IsKnown(sig string) bool
	OutOfTime() bool
}

// HistCase is what is written to replay files.
type HistCase struct {
	Scenario string   `json:"scenario"`
	History  []string `json:"history"`
	Indices  []uint16 `json:"indices"`
}

func BFS(r Reporter, sc Scenario) *Stats {
	st := &Stats{Classes: map[string]int64{}}
	seen := map[[32]byte]struct{}{}
	init := sc.Run(nil)
	seen[init.Key] = struct{}{}
	for _, v := range init.Viols {
		r.Report(v.Sig, v.Msg, HistCase{Scenario: sc.Name})
	}
	st.States = 1
	frontier := [][]uint16{{}}
	if init.Prune || len(init.Viols) > 0 {
		frontier = nil
	}
	nl := len(sc.Letters)
	names := func(h []uint16) []string {
		o := make([]string, len(h))
		for i, x := range h {
			o[i] = sc.Letters[x]
		}
		return o
	}
	type res struct {
		hist []uint16
		out  Outcome
	}
	for depth := 1; depth <= sc.MaxDepth && len(frontier) > 0; depth++ {
		if r.OutOfTime() {
			st.Capped = true
			break
		}
		total := len(frontier) * nl
		results := make([]res, total)
		var next int64
		var mu sync.Mutex
		var wg sync.WaitGroup
		nw := runtime.NumCPU()
		stopped := false
		const chunk = 32
		for w := 0; w < nw; w++ {
			wg.Add(1)
			go func() {
				defer wg.Done()
				for {
					mu.Lock()
					lo := int(next)
					if lo >= total || stopped {
						mu.Unlock()
						return
					}
					if r.OutOfTime() {
						stopped = true
						mu.Unlock()
						return
					}
					hi := lo + chunk
					if hi > total {
						hi = total
					}
					next = int64(hi)
					mu.Unlock()
					for i := lo; i < hi; i++ {
						h := append(append(make([]uint16, 0, depth), frontier[i/nl]...), uint16(i%nl))
						results[i] = res{h, sc.Run(h)}
					}
				}
			}()
		}
		wg.Wait()
		if stopped {
			// the level is incomplete: report only completed depths
			st.Capped = true
			// still surface violations found so far (they are real executions)
			for i := 0; i < int(next); i++ {
				if results[i].hist == nil {
					continue
				}
				for _, v := range results[i].out.Viols {
					r.Report(v.Sig, v.Msg, HistCase{sc.Name, names(results[i].hist), results[i].hist})
				}
			}
			break
		}
		var nf [][]uint16
		for i := range results {
			o := results[i].out
			st.Transitions++
			st.Classes[o.Class]++
			if sc.OnResult != nil {
				sc.OnResult(results[i].hist, o)
			}
			prune := o.Prune
			if len(o.Viols) > 0 && st.Replayed < 40 {
				// determinism guard: a violating history is replayed twice from scratch before it is believed
				st.Replayed++
				for k := 0; k < 2; k++ {
					o2 := sc.Run(results[i].hist)
					if sigsOf(o2.Viols) != sigsOf(o.Viols) || o2.Key != o.Key {
						r.Report("NONDETERMINISM|"+sc.Name, fmt.Sprintf("history %v gave %q on one execution and %q on a replay: a source of nondeterminism is not owned by the harness", names(results[i].hist), sigsOf(o.Viols), sigsOf(o2.Viols)), HistCase{sc.Name, names(results[i].hist), results[i].hist})
						o.Viols = nil
						break
					}
				}
			}
			for _, v := range o.Viols {
				r.Report(v.Sig, v.Msg, HistCase{sc.Name, names(results[i].hist), results[i].hist})
				prune = true
			}
			if _, ok := seen[o.Key]; ok {
				continue
			}
			seen[o.Key] = struct{}{}
			if len(st.Samples) < 3 && depth == sc.MaxDepth || (len(st.Samples) < 2 && depth >= 2 && i%97 == 5) {
				st.Samples = append(st.Samples, names(results[i].hist))
			}
			if !prune {
				nf = append(nf, results[i].hist)
			}
		}
		st.MaxDepth = depth
		st.PerDepth = append(st.PerDepth, int64(len(nf)))
		frontier = nf
		st.States = int64(len(seen))
		if sc.MaxStates > 0 && len(seen) > sc.MaxStates {
			st.Capped = true
			break
		}
	}
	st.States = int64(len(seen))
	st.Fixpoint = len(frontier) == 0 && !st.Capped
	return st
}

func (s *Stats) String() string {
	return fmt.Sprintf("states=%d transitions=%d depth=%d fixpoint=%v capped=%v", s.States, s.Transitions, s.MaxDepth, s.Fixpoint, s.Capped)
}

func sigsOf(vs []Viol) string {
	var out []string
	for _, v := range vs {
		out = append(out, v.Sig)
	}
	return fmt.Sprint(out)
}
