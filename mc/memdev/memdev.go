// Package memdev is the sparse in-memory block device every explorer runs the library on.
// It implements fs.File + io.ReaderAt + io.WriterAt + io.Seeker + Sync() and records what reaches the medium.
package memdev

import (
	"crypto/sha256"
	"encoding/binary"
	"errors"
	"fmt"
	"io"
	"io/fs"
	"runtime"
	"sort"
	"strings"
	"sync"
	"time"
)

const PageSize = 4096

type EventKind uint8

const (
	EvWrite EventKind = iota
	EvSync
)

// Event is one WriteAt or Sync that reached the device.
type Event struct {
	Kind EventKind
	Off  int64
	Data []byte // copy of the written bytes (only when LogData is set)
	Len  int
}

type Range struct{ Lo, Hi int64 }

// Violation of the range monitor.
type RangeViolation struct {
	Off   int64
	Len   int
	Stack string
}

type Dev struct {
	mu    sync.RWMutex
	size  int64
	pages map[int64][]byte
	pos   int64

	// logging
	LogEvents bool // record events
	LogData   bool // keep the data of writes (needed for crash enumeration)
	Events    []Event
	Writes    int64
	Syncs     int64

	// range monitor: when Allowed != nil, a write not fully inside the union of Allowed is recorded.
	Allowed []Range
	Outside []RangeViolation

	// read accounting
	Reads      int64
	ReadBytes  int64
	ReadBudget int64 // 0 = unlimited; exceeded => ReadAt fails with ErrBudget and Exceeded is set
	Exceeded   bool
	TrackReads bool // record the ranges read
	ReadRanges []Range

	// scheduling hook (C17)
	OnRead func(off int64, n int)
	// OnReadDone is called after the bytes have been copied into the caller's buffer (a second scheduling point: the
	// caller may be descheduled between the arrival of the data and its use)
	OnReadDone func(off int64, n int)

	// fail all writes (a medium that refuses)
	FailWrites bool
}

var ErrBudget = errors.New("memdev: read budget exceeded")

func New(size int64) *Dev {
	return &Dev{size: size, pages: map[int64][]byte{}}
}

func (d *Dev) Size() int64 { return d.size }

// ---- fs.File ----

type info struct{ size int64 }

func (i info) Name() string       { return "memdev" }
func (i info) Size() int64        { return i.size }
func (i info) Mode() fs.FileMode  { return 0o644 }
func (i info) ModTime() time.Time { return time.Unix(0, 0) }
func (i info) IsDir() bool        { return false }
func (i info) Sys() any           { return nil }

func (d *Dev) Stat() (fs.FileInfo, error) { return info{d.size}, nil }
func (d *Dev) Close() error               { return nil }

func (d *Dev) Read(p []byte) (int, error) {
	n, err := d.ReadAt(p, d.pos)
	d.pos += int64(n)
	return n, err
}

func (d *Dev) Seek(off int64, whence int) (int64, error) {
	var np int64
	switch whence {
	case io.SeekStart:
		np = off
	case io.SeekCurrent:
		np = d.pos + off
	case io.SeekEnd:
		np = d.size + off
	default:
		return 0, errors.New("memdev: bad whence")
	}
	if np < 0 {
		return 0, errors.New("memdev: negative position")
	}
	d.pos = np
	return np, nil
}

func (d *Dev) ReadAt(p []byte, off int64) (int, error) {
	if d.OnRead != nil {
		d.OnRead(off, len(p))
	}
	d.mu.Lock()
	d.Reads++
	d.ReadBytes += int64(len(p))
	if d.TrackReads && len(p) > 0 {
		d.ReadRanges = append(d.ReadRanges, Range{off, off + int64(len(p))})
	}
	if d.ReadBudget > 0 && (d.Reads > d.ReadBudget || d.ReadBytes > d.ReadBudget*PageSize) {
		d.Exceeded = true
		d.mu.Unlock()
		return 0, ErrBudget
	}
	d.mu.Unlock()
	d.mu.RLock()
	n, err := d.readAtLocked(p, off)
	d.mu.RUnlock()
	if d.OnReadDone != nil {
		d.OnReadDone(off, len(p))
	}
	return n, err
}

func (d *Dev) readAtLocked(p []byte, off int64) (int, error) {
	if off < 0 {
		return 0, errors.New("memdev: negative offset")
	}
	if off >= d.size {
		return 0, io.EOF
	}
	n := len(p)
	var err error
	if off+int64(n) > d.size {
		n = int(d.size - off)
		err = io.EOF
	}
	done := 0
	for done < n {
		pg := (off + int64(done)) / PageSize
		po := int((off + int64(done)) % PageSize)
		c := PageSize - po
		if c > n-done {
			c = n - done
		}
		if b, ok := d.pages[pg]; ok {
			copy(p[done:done+c], b[po:po+c])
		} else {
			clear(p[done : done+c])
		}
		done += c
	}
	return n, err
}

func allZero(b []byte) bool {
	for _, x := range b {
		if x != 0 {
			return false
		}
	}
	return true
}

func (d *Dev) inside(off int64, n int) bool {
	lo, hi := off, off+int64(n)
	// Allowed ranges are few; check coverage by walking sorted ranges
	rs := append([]Range(nil), d.Allowed...)
	sort.Slice(rs, func(i, j int) bool { return rs[i].Lo < rs[j].Lo })
	cur := lo
	for _, r := range rs {
		if r.Hi <= cur {
			continue
		}
		if r.Lo > cur {
			return false
		}
		cur = r.Hi
		if cur >= hi {
			return true
		}
	}
	return cur >= hi
}

func stack() string {
	pc := make([]uintptr, 24)
	n := runtime.Callers(3, pc)
	fr := runtime.CallersFrames(pc[:n])
	var sb strings.Builder
	for {
		f, more := fr.Next()
		if strings.Contains(f.Function, "go-diskfs") {
			fn := f.Function[strings.LastIndex(f.Function, "/")+1:]
			fmt.Fprintf(&sb, "%s;", fn)
		}
		if !more {
			break
		}
	}
	return sb.String()
}

func (d *Dev) WriteAt(p []byte, off int64) (int, error) {
	d.mu.Lock()
	defer d.mu.Unlock()
	if d.FailWrites {
		return 0, errors.New("memdev: write refused")
	}
	if off < 0 {
		return 0, errors.New("memdev: negative offset")
	}
	d.Writes++
	if d.Allowed != nil && len(p) > 0 && !d.inside(off, len(p)) {
		if len(d.Outside) < 16 {
			d.Outside = append(d.Outside, RangeViolation{off, len(p), stack()})
		}
	}
	if d.LogEvents {
		ev := Event{Kind: EvWrite, Off: off, Len: len(p)}
		if d.LogData {
			ev.Data = append([]byte(nil), p...)
		}
		d.Events = append(d.Events, ev)
	}
	// like a regular file, writing beyond the end extends it
	if off+int64(len(p)) > d.size {
		d.size = off + int64(len(p))
	}
	d.writeLocked(p, off)
	return len(p), nil
}

func (d *Dev) writeLocked(p []byte, off int64) {
	done := 0
	n := len(p)
	for done < n {
		pg := (off + int64(done)) / PageSize
		po := int((off + int64(done)) % PageSize)
		c := PageSize - po
		if c > n-done {
			c = n - done
		}
		b, ok := d.pages[pg]
		if !ok {
			if allZero(p[done : done+c]) {
				done += c
				continue
			}
			b = make([]byte, PageSize)
			d.pages[pg] = b
		}
		copy(b[po:po+c], p[done:done+c])
		done += c
	}
}

// Poke writes without logging, monitoring or extending (harness use).
func (d *Dev) Poke(p []byte, off int64) {
	d.mu.Lock()
	defer d.mu.Unlock()
	d.writeLocked(p, off)
}

// Peek reads without accounting.
func (d *Dev) Peek(off int64, n int) []byte {
	d.mu.RLock()
	defer d.mu.RUnlock()
	p := make([]byte, n)
	_, _ = d.readAtLocked(p, off)
	return p
}

func (d *Dev) Sync() error {
	d.mu.Lock()
	defer d.mu.Unlock()
	d.Syncs++
	if d.LogEvents {
		d.Events = append(d.Events, Event{Kind: EvSync})
	}
	return nil
}

// Truncate sets the size (harness use), dropping pages beyond it.
func (d *Dev) Truncate(size int64) {
	d.mu.Lock()
	defer d.mu.Unlock()
	for pg := range d.pages {
		if pg*PageSize >= size {
			delete(d.pages, pg)
		} else if (pg+1)*PageSize > size {
			clear(d.pages[pg][size-pg*PageSize:])
		}
	}
	d.size = size
}

// Clone returns an independent copy of the contents (no logs, no monitors).
func (d *Dev) Clone() *Dev {
	d.mu.RLock()
	defer d.mu.RUnlock()
	n := &Dev{size: d.size, pages: make(map[int64][]byte, len(d.pages))}
	for k, v := range d.pages {
		n.pages[k] = append([]byte(nil), v...)
	}
	return n
}

func (d *Dev) ResetLog() {
	d.Events = nil
	d.Outside = nil
	d.Writes, d.Syncs, d.Reads, d.ReadBytes = 0, 0, 0, 0
	d.ReadRanges = nil
	d.Exceeded = false
}

func (d *Dev) sortedPages() []int64 {
	ks := make([]int64, 0, len(d.pages))
	for k, v := range d.pages {
		if !allZero(v) {
			ks = append(ks, k)
		}
	}
	sort.Slice(ks, func(i, j int) bool { return ks[i] < ks[j] })
	return ks
}

// Digest is a canonical hash of the contents (size + non-zero pages in order).
func (d *Dev) Digest() [32]byte {
	return d.DigestRange(0, d.size)
}

// DigestRange hashes the bytes of [lo,hi) only (positions relative to lo, so that the same volume at two
// different offsets hashes identically).
func (d *Dev) DigestRange(lo, hi int64) [32]byte {
	d.mu.RLock()
	defer d.mu.RUnlock()
	h := sha256.New()
	var hdr [8]byte
	binary.LittleEndian.PutUint64(hdr[:], uint64(hi-lo))
	h.Write(hdr[:])
	buf := make([]byte, PageSize)
	for _, pg := range d.sortedPages() {
		plo, phi := pg*PageSize, (pg+1)*PageSize
		if phi <= lo || plo >= hi {
			continue
		}
		a, b := plo, phi
		if a < lo {
			a = lo
		}
		if b > hi {
			b = hi
		}
		seg := d.pages[pg][a-plo : b-plo]
		if allZero(seg) {
			continue
		}
		// emit in chunks aligned relative to lo so the digest is position independent
		_ = buf
		binary.LittleEndian.PutUint64(hdr[:], uint64(a-lo))
		// to be independent of page alignment, hash byte runs as (relative offset of each nonzero 512-block, data)
		for o := int64(0); o < int64(len(seg)); o += 512 {
			e := o + 512
			if e > int64(len(seg)) {
				e = int64(len(seg))
			}
			// align blocks relative to lo
			blk := seg[o:e]
			if allZero(blk) {
				continue
			}
			binary.LittleEndian.PutUint64(hdr[:], uint64(a-lo+o))
			h.Write(hdr[:])
			h.Write(blk)
		}
	}
	var out [32]byte
	copy(out[:], h.Sum(nil))
	return out
}

// Bytes returns [lo,hi) as a flat slice (use only on small ranges).
func (d *Dev) Bytes(lo, hi int64) []byte { return d.Peek(lo, int(hi-lo)) }

// NonZeroExtent returns the offset just past the last non-zero byte.
func (d *Dev) NonZeroExtent() int64 {
	d.mu.RLock()
	defer d.mu.RUnlock()
	var m int64
	for k, v := range d.pages {
		if (k+1)*PageSize <= m {
			continue
		}
		for i := PageSize - 1; i >= 0; i-- {
			if v[i] != 0 {
				if e := k*PageSize + int64(i) + 1; e > m {
					m = e
				}
				break
			}
		}
	}
	if m > d.size {
		m = d.size
	}
	return m
}

// PopulatedPages returns the number of allocated pages.
func (d *Dev) PopulatedPages() int {
	d.mu.RLock()
	defer d.mu.RUnlock()
	return len(d.pages)
}

// EqualOutside reports the first offset outside [lo,hi) at which d and o differ, or -1.
func (d *Dev) DiffOutside(o *Dev, lo, hi int64) int64 {
	d.mu.RLock()
	defer d.mu.RUnlock()
	seen := map[int64]bool{}
	var first int64 = -1
	check := func(pg int64) {
		if seen[pg] {
			return
		}
		seen[pg] = true
		a, b := d.pages[pg], o.pages[pg]
		for i := 0; i < PageSize; i++ {
			off := pg*PageSize + int64(i)
			if off >= lo && off < hi {
				continue
			}
			var x, y byte
			if a != nil {
				x = a[i]
			}
			if b != nil {
				y = b[i]
			}
			if x != y && (first < 0 || off < first) {
				first = off
			}
		}
	}
	for pg := range d.pages {
		check(pg)
	}
	for pg := range o.pages {
		check(pg)
	}
	return first
}

// Image is a serialisable copy of the device contents.
type Image struct {
	Size  int64
	Pages map[int64][]byte
}

func (d *Dev) Export() Image {
	d.mu.RLock()
	defer d.mu.RUnlock()
	im := Image{Size: d.size, Pages: make(map[int64][]byte, len(d.pages))}
	for k, v := range d.pages {
		if !allZero(v) {
			im.Pages[k] = append([]byte(nil), v...)
		}
	}
	return im
}

func FromImage(im Image) *Dev {
	d := New(im.Size)
	for k, v := range im.Pages {
		d.pages[k] = append([]byte(nil), v...)
	}
	return d
}
