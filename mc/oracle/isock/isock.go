// Package isock is an independent reader of ISO9660 primary-volume-descriptor directory trees, written from
// ECMA-119. It shares no code with the library under test.
package isock

import (
	"encoding/binary"
	"fmt"
	"sort"
	"strings"
)

type ReaderAt interface {
	ReadAt(p []byte, off int64) (int, error)
}

type File struct {
	Path  string // names as recorded (version suffix ";1" stripped), joined with /
	IsDir bool
	LBA   uint32
	Size  uint32
	Data  []byte
}

type Result struct {
	BlockSize   int
	VolumeSpace uint32 // in blocks
	VolumeID    string
	Files       []File
	Problems    []string
}

func (r *Result) bad(f string, a ...any) {
	if len(r.Problems) < 20 {
		r.Problems = append(r.Problems, fmt.Sprintf(f, a...))
	}
}

func rd(r ReaderAt, off int64, n int) []byte {
	b := make([]byte, n)
	_, _ = r.ReadAt(b, off)
	return b
}

// Check walks the PVD tree of the image that starts at byte offset start and may extend to start+limit.
func Check(r ReaderAt, start, limit int64) *Result {
	res := &Result{}
	var pvd []byte
	for i := 0; i < 32; i++ {
		vd := rd(r, start+32768+int64(i)*2048, 2048)
		if string(vd[1:6]) != "CD001" {
			res.bad("volume descriptor %d has no CD001 signature", i)
			return res
		}
		if vd[0] == 1 {
			pvd = vd
			break
		}
		if vd[0] == 255 {
			break
		}
	}
	if pvd == nil {
		res.bad("no primary volume descriptor")
		return res
	}
	res.BlockSize = int(binary.LittleEndian.Uint16(pvd[128:130]))
	if int(binary.BigEndian.Uint16(pvd[130:132])) != res.BlockSize {
		res.bad("logical block size differs between its two byte orders")
	}
	res.VolumeSpace = binary.LittleEndian.Uint32(pvd[80:84])
	if binary.BigEndian.Uint32(pvd[84:88]) != res.VolumeSpace {
		res.bad("volume space size differs between its two byte orders")
	}
	res.VolumeID = strings.TrimRight(string(pvd[40:72]), " \x00")
	if res.BlockSize < 512 || res.BlockSize&(res.BlockSize-1) != 0 {
		res.bad("logical block size %d", res.BlockSize)
		return res
	}
	total := int64(res.VolumeSpace) * int64(res.BlockSize)
	if total > limit {
		res.bad("volume space size %d blocks = %d bytes exceeds the %d bytes available", res.VolumeSpace, total, limit)
	}
	root := pvd[156:190]
	type ext struct {
		lo, hi int64
		path   string
	}
	var extents []ext
	seenDir := map[uint32]bool{}
	var walk func(path string, lba, size uint32, depth int)
	walk = func(path string, lba, size uint32, depth int) {
		if depth > 32 || seenDir[lba] {
			res.bad("%s: directory loop or nesting too deep", path)
			return
		}
		seenDir[lba] = true
		if int64(lba)*int64(res.BlockSize)+int64(size) > total {
			res.bad("%s: directory extent [%d,+%d) outside the volume (%d blocks)", path, lba, size, res.VolumeSpace)
			return
		}
		extents = append(extents, ext{int64(lba) * int64(res.BlockSize), int64(lba)*int64(res.BlockSize) + int64(size), path + "/"})
		data := rd(r, start+int64(lba)*int64(res.BlockSize), int(size))
		for off := 0; off < len(data); {
			l := int(data[off])
			if l == 0 {
				// records do not cross sector boundaries: skip to the next one
				nxt := (off/2048 + 1) * 2048
				if nxt <= off {
					break
				}
				off = nxt
				continue
			}
			if off+l > len(data) || l < 34 {
				res.bad("%s: directory record at %d has length %d", path, off, l)
				return
			}
			rec := data[off : off+l]
			off += l
			elba := binary.LittleEndian.Uint32(rec[2:6])
			if binary.BigEndian.Uint32(rec[6:10]) != elba {
				res.bad("%s: extent location differs between byte orders", path)
			}
			esz := binary.LittleEndian.Uint32(rec[10:14])
			flags := rec[25]
			idl := int(rec[32])
			if 33+idl > l {
				res.bad("%s: identifier length %d exceeds record", path, idl)
				return
			}
			id := string(rec[33 : 33+idl])
			if id == "\x00" || id == "\x01" {
				continue
			}
			name := id
			if i := strings.Index(name, ";"); i >= 0 {
				name = name[:i]
			}
			name = strings.TrimSuffix(name, ".")
			p := name
			if path != "" {
				p = path + "/" + name
			}
			if flags&2 != 0 {
				res.Files = append(res.Files, File{Path: p, IsDir: true, LBA: elba, Size: esz})
				walk(p, elba, esz, depth+1)
				continue
			}
			if int64(elba)*int64(res.BlockSize)+int64(esz) > total {
				res.bad("%s: file extent [%d,+%d bytes) outside the volume (%d blocks)", p, elba, esz, res.VolumeSpace)
				continue
			}
			if esz > 0 {
				extents = append(extents, ext{int64(elba) * int64(res.BlockSize), int64(elba)*int64(res.BlockSize) + int64(esz), p})
			}
			f := File{Path: p, LBA: elba, Size: esz}
			if esz <= 64<<20 {
				f.Data = rd(r, start+int64(elba)*int64(res.BlockSize), int(esz))
			}
			res.Files = append(res.Files, f)
		}
	}
	walk("", binary.LittleEndian.Uint32(root[2:6]), binary.LittleEndian.Uint32(root[10:14]), 0)
	sort.Slice(extents, func(i, j int) bool { return extents[i].lo < extents[j].lo })
	for i := 1; i < len(extents); i++ {
		if extents[i].lo < extents[i-1].hi {
			res.bad("extents of %s and %s overlap", extents[i-1].path, extents[i].path)
		}
	}
	return res
}
