// Package gptck is an independent reader/validator of GPT and MBR structures, written from the UEFI
// specification (ch. 5). It imports nothing from the library under test.
package gptck

import (
	"encoding/binary"
	"fmt"
	"hash/crc32"
	"strings"
	"unicode/utf16"
)

type ReaderAt interface {
	ReadAt(p []byte, off int64) (int, error)
}

type Entry struct {
	Index      int // 1-based slot
	TypeGUID   string
	GUID       string
	First      uint64
	Last       uint64
	Attributes uint64
	Name       string
}

type Header struct {
	MyLBA, AltLBA, FirstUsable, LastUsable, ArrayLBA uint64
	DiskGUID                                         string
	Count, EntrySize, ArrayCRC, HeaderCRC            uint32
	HeaderCRCOK                                      bool
	ArrayCRCOK                                       bool
	Entries                                          []Entry
	ArrayBytes                                       []byte
}

// guidString decodes the mixed-endian on-disk GUID.
func guidString(b []byte) string {
	return strings.ToUpper(fmt.Sprintf("%02x%02x%02x%02x-%02x%02x-%02x%02x-%02x%02x-%02x%02x%02x%02x%02x%02x",
		b[3], b[2], b[1], b[0], b[5], b[4], b[7], b[6], b[8], b[9], b[10], b[11], b[12], b[13], b[14], b[15]))
}

func read(r ReaderAt, off int64, n int) ([]byte, error) {
	b := make([]byte, n)
	m, err := r.ReadAt(b, off)
	if m != n {
		return nil, fmt.Errorf("short read at %d: %d of %d (%v)", off, m, n, err)
	}
	return b, nil
}

// ParseHeader reads and decodes the header at lba (no cross-checks besides the CRCs).
func ParseHeader(r ReaderAt, lss int, lba uint64, maxArray int, strict bool) (*Header, error) {
	b, err := read(r, int64(lba)*int64(lss), lss)
	if err != nil {
		return nil, err
	}
	if string(b[0:8]) != "EFI PART" {
		return nil, fmt.Errorf("no EFI PART signature at LBA %d", lba)
	}
	if binary.LittleEndian.Uint32(b[8:12]) != 0x00010000 {
		return nil, fmt.Errorf("bad revision")
	}
	hs := binary.LittleEndian.Uint32(b[12:16])
	if hs < 92 || int(hs) > lss {
		return nil, fmt.Errorf("bad header size %d", hs)
	}
	h := &Header{}
	h.HeaderCRC = binary.LittleEndian.Uint32(b[16:20])
	c := append([]byte(nil), b[:hs]...)
	copy(c[16:20], []byte{0, 0, 0, 0})
	h.HeaderCRCOK = crc32.ChecksumIEEE(c) == h.HeaderCRC
	if binary.LittleEndian.Uint32(b[20:24]) != 0 {
		return nil, fmt.Errorf("reserved field not zero")
	}
	h.MyLBA = binary.LittleEndian.Uint64(b[24:32])
	h.AltLBA = binary.LittleEndian.Uint64(b[32:40])
	h.FirstUsable = binary.LittleEndian.Uint64(b[40:48])
	h.LastUsable = binary.LittleEndian.Uint64(b[48:56])
	h.DiskGUID = guidString(b[56:72])
	h.ArrayLBA = binary.LittleEndian.Uint64(b[72:80])
	h.Count = binary.LittleEndian.Uint32(b[80:84])
	h.EntrySize = binary.LittleEndian.Uint32(b[84:88])
	h.ArrayCRC = binary.LittleEndian.Uint32(b[88:92])
	for i := 92; strict && i < lss; i++ {
		if b[i] != 0 {
			return nil, fmt.Errorf("header sector byte %d not zero", i)
		}
	}
	total := uint64(h.Count) * uint64(h.EntrySize)
	if h.EntrySize < 128 || total > uint64(maxArray) {
		return h, fmt.Errorf("entry array of %d x %d bytes not plausible", h.Count, h.EntrySize)
	}
	ab, err := read(r, int64(h.ArrayLBA)*int64(lss), int(total))
	if err != nil {
		return h, err
	}
	h.ArrayBytes = ab
	h.ArrayCRCOK = crc32.ChecksumIEEE(ab) == h.ArrayCRC
	for i := 0; i < int(h.Count); i++ {
		e := ab[i*int(h.EntrySize) : (i+1)*int(h.EntrySize)]
		zero := true
		for _, x := range e[0:16] {
			if x != 0 {
				zero = false
			}
		}
		if zero {
			continue
		}
		var u []uint16
		for j := 56; j+1 < 128; j += 2 {
			v := binary.LittleEndian.Uint16(e[j : j+2])
			if v == 0 {
				break
			}
			u = append(u, v)
		}
		h.Entries = append(h.Entries, Entry{
			Index: i + 1, TypeGUID: guidString(e[0:16]), GUID: guidString(e[16:32]),
			First: binary.LittleEndian.Uint64(e[32:40]), Last: binary.LittleEndian.Uint64(e[40:48]),
			Attributes: binary.LittleEndian.Uint64(e[48:56]), Name: string(utf16.Decode(u)),
		})
	}
	return h, nil
}

// CheckDisk validates a complete GPT disk of diskBytes bytes. wantPMBR: a protective MBR must be present.
// Returns the primary header and a list of complaints (empty = valid).
func CheckDisk(r ReaderAt, lss int, diskBytes int64, wantPMBR bool) (*Header, []string) {
	var bad []string
	add := func(f string, a ...any) { bad = append(bad, fmt.Sprintf(f, a...)) }
	n := uint64(diskBytes / int64(lss))
	p, err := ParseHeader(r, lss, 1, 1<<20, true)
	if err != nil {
		add("primary header: %v", err)
		return p, bad
	}
	if !p.HeaderCRCOK {
		add("primary header CRC wrong")
	}
	if !p.ArrayCRCOK {
		add("primary array CRC wrong")
	}
	if p.MyLBA != 1 {
		add("primary MyLBA=%d", p.MyLBA)
	}
	if p.AltLBA != n-1 {
		add("primary AlternateLBA=%d, last LBA is %d", p.AltLBA, n-1)
	}
	if p.ArrayLBA != 2 {
		add("primary array LBA=%d", p.ArrayLBA)
	}
	if p.EntrySize != 128 {
		add("entry size %d", p.EntrySize)
	}
	arraySectors := (uint64(p.Count)*uint64(p.EntrySize) + uint64(lss) - 1) / uint64(lss)
	if p.FirstUsable < 2+arraySectors {
		add("first usable LBA %d overlaps the primary array (ends at %d)", p.FirstUsable, 2+arraySectors)
	}
	if n < 1+arraySectors+1 || p.LastUsable > n-1-arraySectors-1 {
		add("last usable LBA %d overlaps the backup array/header (disk has %d sectors)", p.LastUsable, n)
	}
	if p.FirstUsable > p.LastUsable+1 {
		add("first usable %d > last usable %d", p.FirstUsable, p.LastUsable)
	}
	s, err := ParseHeader(r, lss, n-1, 1<<20, true)
	if err != nil {
		add("backup header at last LBA %d: %v", n-1, err)
		return p, bad
	}
	if !s.HeaderCRCOK {
		add("backup header CRC wrong")
	}
	if !s.ArrayCRCOK {
		add("backup array CRC wrong")
	}
	if s.MyLBA != n-1 || s.AltLBA != 1 {
		add("backup MyLBA/AlternateLBA = %d/%d, want %d/1", s.MyLBA, s.AltLBA, n-1)
	}
	if s.ArrayLBA != n-1-arraySectors {
		add("backup array LBA=%d, want %d", s.ArrayLBA, n-1-arraySectors)
	}
	if s.FirstUsable != p.FirstUsable || s.LastUsable != p.LastUsable || s.DiskGUID != p.DiskGUID || s.Count != p.Count || s.EntrySize != p.EntrySize || s.ArrayCRC != p.ArrayCRC {
		add("backup header does not mirror the primary")
	}
	if string(s.ArrayBytes) != string(p.ArrayBytes) {
		add("backup entry array differs from the primary")
	}
	if wantPMBR {
		m, err := read(r, 0, 512)
		if err != nil {
			add("LBA0: %v", err)
			return p, bad
		}
		if m[510] != 0x55 || m[511] != 0xaa {
			add("protective MBR signature missing")
		}
		e := m[446:462]
		want := n - 1
		if want > 0xFFFFFFFF {
			want = 0xFFFFFFFF
		}
		if e[4] != 0xEE || binary.LittleEndian.Uint32(e[8:12]) != 1 {
			add("protective MBR entry is not type EE starting at LBA 1")
		}
		if uint64(binary.LittleEndian.Uint32(e[12:16])) != want {
			add("protective MBR covers %d sectors, want %d", binary.LittleEndian.Uint32(e[12:16]), want)
		}
		for i := 462; i < 510; i++ {
			if m[i] != 0 {
				add("protective MBR has other entries")
				break
			}
		}
	}
	return p, bad
}

type MBREntry struct {
	Index    int
	Boot     byte
	Type     byte
	Start    uint32
	Sectors  uint32
	AllZero  bool
	CHSStart [3]byte
	CHSEnd   [3]byte
}

// ParseMBR decodes the four slots; error if the signature is missing.
func ParseMBR(r ReaderAt) ([]MBREntry, error) {
	m, err := read(r, 0, 512)
	if err != nil {
		return nil, err
	}
	if m[510] != 0x55 || m[511] != 0xaa {
		return nil, fmt.Errorf("no MBR signature")
	}
	var out []MBREntry
	for i := 0; i < 4; i++ {
		e := m[446+16*i : 446+16*(i+1)]
		z := true
		for _, x := range e {
			if x != 0 {
				z = false
			}
		}
		out = append(out, MBREntry{Index: i + 1, Boot: e[0], Type: e[4], Start: binary.LittleEndian.Uint32(e[8:12]),
			Sectors: binary.LittleEndian.Uint32(e[12:16]), AllZero: z,
			CHSStart: [3]byte{e[1], e[2], e[3]}, CHSEnd: [3]byte{e[5], e[6], e[7]}})
	}
	return out, nil
}
