// Package fatck is an independent structural checker for FAT12/16/32 volumes, written from the Microsoft
// FAT specification (fatgen103). It shares no code with the library under test.
package fatck

import (
	"encoding/binary"
	"fmt"
	"strings"
	"unicode/utf16"
)

type ReaderAt interface {
	ReadAt(p []byte, off int64) (int, error)
}

type File struct {
	Path    string
	IsDir   bool
	Size    uint32
	First   uint32
	Chain   []uint32
	Attr    byte
	MTime   [2]uint16 // time, date words
	CTime   [2]uint16
	ADate   uint16
	Short   string
	Long    string
	DirOff  int64 // byte offset of the 8.3 slot on the device (relative to volume start)
	Content func() []byte
}

type Result struct {
	Type         int // 12,16,32
	BytesPerSec  int
	SecPerClus   int
	ClusterBytes int
	Clusters     uint32 // number of data clusters
	DataStart    int64  // relative to volume start
	FATStart     int64
	FATBytes     int64
	RootDirOff   int64
	RootEntries  int
	Label        string
	Files        []File
	Problems     []string
	Notes        []string
	UsedClusters int
	FreeClusters int
	fat          []uint32
	r            ReaderAt
	start        int64
}

func (res *Result) bad(f string, a ...any) {
	if len(res.Problems) < 20 {
		res.Problems = append(res.Problems, fmt.Sprintf(f, a...))
	}
}

// note records an observation that the property does not state (reported in evidence only, never a violation).
func (res *Result) note(f string, a ...any) {
	if len(res.Notes) < 20 {
		res.Notes = append(res.Notes, fmt.Sprintf(f, a...))
	}
}

func rd(r ReaderAt, off int64, n int) []byte {
	b := make([]byte, n)
	_, _ = r.ReadAt(b, off)
	return b
}

func (res *Result) eoc(v uint32) bool {
	switch res.Type {
	case 12:
		return v >= 0xFF8
	case 16:
		return v >= 0xFFF8
	}
	return v&0x0FFFFFFF >= 0x0FFFFFF8
}

func (res *Result) badMark(v uint32) bool {
	switch res.Type {
	case 12:
		return v == 0xFF7
	case 16:
		return v == 0xFFF7
	}
	return v&0x0FFFFFFF == 0x0FFFFFF7
}

// Check parses the volume occupying [start, start+size) of r as FAT<typ>.
func Check(r ReaderAt, start, size int64, typ int) *Result {
	res := &Result{Type: typ, r: r, start: start}
	bs := rd(r, start, 512)
	if bs[510] != 0x55 || bs[511] != 0xAA {
		res.bad("boot sector signature missing")
		return res
	}
	bps := int(binary.LittleEndian.Uint16(bs[11:13]))
	spc := int(bs[13])
	rsv := int(binary.LittleEndian.Uint16(bs[14:16]))
	nfat := int(bs[16])
	rootEnt := int(binary.LittleEndian.Uint16(bs[17:19]))
	tot := uint32(binary.LittleEndian.Uint16(bs[19:21]))
	media := bs[21]
	fatsz := uint32(binary.LittleEndian.Uint16(bs[22:24]))
	if tot == 0 {
		tot = binary.LittleEndian.Uint32(bs[32:36])
	}
	if fatsz == 0 {
		fatsz = binary.LittleEndian.Uint32(bs[36:40])
	}
	if bps != 512 && bps != 1024 && bps != 2048 && bps != 4096 {
		res.bad("bytes per sector %d", bps)
		return res
	}
	if spc == 0 || spc&(spc-1) != 0 {
		res.bad("sectors per cluster %d", spc)
		return res
	}
	if nfat != 2 {
		res.bad("number of FATs %d", nfat)
	}
	if rsv == 0 || fatsz == 0 || tot == 0 {
		res.bad("reserved=%d fatsz=%d total=%d", rsv, fatsz, tot)
		return res
	}
	res.BytesPerSec, res.SecPerClus, res.ClusterBytes = bps, spc, bps*spc
	if int64(tot)*int64(bps) > size {
		res.bad("boot sector claims %d sectors of %d bytes = %d bytes, the volume was given %d", tot, bps, int64(tot)*int64(bps), size)
	}
	if int64(tot)*int64(bps) <= size-int64(bps) {
		res.bad("boot sector covers only %d of the %d bytes given", int64(tot)*int64(bps), size)
	}
	if typ == 32 && rootEnt != 0 {
		res.bad("FAT32 with %d root entries", rootEnt)
	}
	if typ != 32 && rootEnt == 0 {
		res.bad("FAT12/16 without root entries")
		return res
	}
	rootSecs := (rootEnt*32 + bps - 1) / bps
	firstData := rsv + nfat*int(fatsz) + rootSecs
	if int64(firstData) >= int64(tot) {
		res.bad("no data area: first data sector %d of %d", firstData, tot)
		return res
	}
	res.Clusters = (tot - uint32(firstData)) / uint32(spc)
	res.DataStart = int64(firstData) * int64(bps)
	res.FATStart = int64(rsv) * int64(bps)
	res.FATBytes = int64(fatsz) * int64(bps)
	res.RootDirOff = int64(rsv+nfat*int(fatsz)) * int64(bps)
	res.RootEntries = rootEnt
	switch typ {
	case 12:
		if res.Clusters >= 4085 {
			res.bad("FAT12 with %d clusters", res.Clusters)
		}
	case 16:
		if res.Clusters < 4085 || res.Clusters >= 65525 {
			res.bad("FAT16 with %d clusters", res.Clusters)
		}
	}
	// FAT must be large enough for all clusters
	need := int64(res.Clusters+2) * int64(typ) / 8
	if typ == 12 {
		need = (int64(res.Clusters+2)*3 + 1) / 2
	}
	if need > res.FATBytes {
		res.bad("FAT of %d bytes too small for %d clusters", res.FATBytes, res.Clusters)
	}
	// two identical copies
	f1 := rd(r, start+res.FATStart, int(res.FATBytes))
	if nfat >= 2 {
		f2 := rd(r, start+res.FATStart+res.FATBytes, int(res.FATBytes))
		if string(f1) != string(f2) {
			for i := range f1 {
				if f1[i] != f2[i] {
					res.bad("the two FAT copies differ (first at byte %d)", i)
					break
				}
			}
		}
	}
	// decode
	n := int(res.Clusters) + 2
	res.fat = make([]uint32, n)
	for i := 0; i < n; i++ {
		switch typ {
		case 12:
			o := i + i/2
			if o+1 >= len(f1) {
				break
			}
			v := uint32(binary.LittleEndian.Uint16(f1[o : o+2]))
			if i&1 == 1 {
				v >>= 4
			} else {
				v &= 0xFFF
			}
			res.fat[i] = v
		case 16:
			if 2*i+2 <= len(f1) {
				res.fat[i] = uint32(binary.LittleEndian.Uint16(f1[2*i : 2*i+2]))
			}
		default:
			if 4*i+4 <= len(f1) {
				res.fat[i] = binary.LittleEndian.Uint32(f1[4*i:4*i+4]) & 0x0FFFFFFF
			}
		}
	}
	if byte(res.fat[0]) != media {
		res.bad("FAT[0] low byte %02x != media %02x", byte(res.fat[0]), media)
	}
	if typ == 32 {
		bk := int(binary.LittleEndian.Uint16(bs[50:52]))
		fsi := int(binary.LittleEndian.Uint16(bs[48:50]))
		if bk == 0 || bk >= rsv {
			res.bad("backup boot sector %d outside the reserved area", bk)
		} else {
			b2 := rd(r, start+int64(bk)*int64(bps), 512)
			if string(b2) != string(bs) {
				res.bad("backup boot sector differs from the boot sector")
			}
		}
		if fsi == 0 || fsi >= rsv {
			res.bad("FSInfo sector %d outside the reserved area", fsi)
		} else {
			fi := rd(r, start+int64(fsi)*int64(bps), 512)
			if binary.LittleEndian.Uint32(fi[0:4]) != 0x41615252 || binary.LittleEndian.Uint32(fi[484:488]) != 0x61417272 || binary.LittleEndian.Uint32(fi[508:512]) != 0xAA550000 {
				res.bad("FSInfo signatures wrong")
			}
			free := binary.LittleEndian.Uint32(fi[488:492])
			nxt := binary.LittleEndian.Uint32(fi[492:496])
			if free != 0xFFFFFFFF && free > res.Clusters {
				res.bad("FSInfo free count %d > %d clusters", free, res.Clusters)
			}
			if nxt != 0xFFFFFFFF && (nxt < 2 || nxt >= res.Clusters+2) {
				res.bad("FSInfo next-free hint %d out of range", nxt)
			}
		}
	}
	// walk the tree
	owner := make(map[uint32]string)
	var walkDir func(path string, first uint32, fixedOff int64, fixedLen int, parentFirst uint32, depth int)
	chain := func(path string, first uint32) []uint32 {
		var out []uint32
		c := first
		seen := map[uint32]bool{}
		for {
			if c < 2 || c >= uint32(n) {
				res.bad("%s: chain leaves the volume at cluster %d (valid 2..%d)", path, c, n-1)
				return out
			}
			if seen[c] {
				res.bad("%s: chain loops at cluster %d", path, c)
				return out
			}
			seen[c] = true
			if o, ok := owner[c]; ok {
				res.bad("%s: cluster %d already belongs to %s", path, c, o)
				return out
			}
			owner[c] = path
			out = append(out, c)
			v := res.fat[c]
			if res.eoc(v) {
				return out
			}
			if v == 0 {
				res.bad("%s: chain runs into free cluster after %d (no end-of-chain mark)", path, c)
				return out
			}
			if res.badMark(v) {
				res.bad("%s: chain runs into a bad-cluster mark", path)
				return out
			}
			c = v
		}
	}
	clusterBytes := func(cs []uint32) []byte {
		var b []byte
		for _, c := range cs {
			b = append(b, rd(r, start+res.DataStart+int64(c-2)*int64(res.ClusterBytes), res.ClusterBytes)...)
		}
		return b
	}
	walkDir = func(path string, first uint32, fixedOff int64, fixedLen int, parentFirst uint32, depth int) {
		if depth > 40 {
			res.bad("%s: directory nesting too deep", path)
			return
		}
		var data []byte
		var offs []int64
		if fixedLen > 0 {
			data = rd(r, start+fixedOff, fixedLen)
			for i := 0; i < fixedLen; i += 32 {
				offs = append(offs, fixedOff+int64(i))
			}
		} else {
			cs := chain(path+"/", first)
			data = clusterBytes(cs)
			for _, c := range cs {
				for i := 0; i < res.ClusterBytes; i += 32 {
					offs = append(offs, res.DataStart+int64(c-2)*int64(res.ClusterBytes)+int64(i))
				}
			}
		}
		var lfn []uint16
		sawDot, sawDotDot := false, false
		for i := 0; i+32 <= len(data); i += 32 {
			e := data[i : i+32]
			if e[0] == 0 {
				break
			}
			if e[0] == 0xE5 {
				lfn = nil
				continue
			}
			if e[11]&0x3F == 0x0F {
				var part []uint16
				for _, p := range []int{1, 3, 5, 7, 9, 14, 16, 18, 20, 22, 24, 28, 30} {
					part = append(part, binary.LittleEndian.Uint16(e[p:p+2]))
				}
				if e[0]&0x40 != 0 {
					lfn = part
				} else {
					lfn = append(part, lfn...)
				}
				continue
			}
			attr := e[11]
			short := strings.TrimRight(string(e[0:8]), " ")
			if ext := strings.TrimRight(string(e[8:11]), " "); ext != "" {
				short += "." + ext
			}
			long := ""
			if lfn != nil {
				var u []uint16
				for _, x := range lfn {
					if x == 0 || x == 0xFFFF {
						break
					}
					u = append(u, x)
				}
				long = string(utf16.Decode(u))
				lfn = nil
			}
			if attr&0x08 != 0 {
				if path == "" {
					res.Label = string(e[0:11])
				}
				continue
			}
			fc := uint32(binary.LittleEndian.Uint16(e[26:28]))
			if typ == 32 {
				fc |= uint32(binary.LittleEndian.Uint16(e[20:22])) << 16
			}
			size := binary.LittleEndian.Uint32(e[28:32])
			name := long
			if name == "" {
				name = short
			}
			if short == "." {
				sawDot = true
				if fc != first {
					res.note("%s/.: points to cluster %d, directory is at %d", path, fc, first)
				}
				continue
			}
			if short == ".." {
				sawDotDot = true
				if fc != parentFirst {
					res.note("%s/..: points to cluster %d, parent is at %d", path, fc, parentFirst)
				}
				continue
			}
			p := path + "/" + name
			f := File{Path: p, IsDir: attr&0x10 != 0, Size: size, First: fc, Attr: attr, Short: short, Long: long, DirOff: offs[i/32],
				MTime: [2]uint16{binary.LittleEndian.Uint16(e[22:24]), binary.LittleEndian.Uint16(e[24:26])},
				CTime: [2]uint16{binary.LittleEndian.Uint16(e[14:16]), binary.LittleEndian.Uint16(e[16:18])}, ADate: binary.LittleEndian.Uint16(e[18:20])}
			if f.IsDir {
				if fc == 0 {
					res.bad("%s: directory without a cluster", p)
				} else {
					pf := first
					if fixedLen > 0 || (typ == 32 && path == "") {
						pf = 0
					}
					res.Files = append(res.Files, f)
					walkDir(p, fc, 0, 0, pf, depth+1)
				}
				continue
			}
			if fc == 0 {
				if size != 0 {
					res.bad("%s: size %d but no first cluster", p, size)
				}
			} else {
				f.Chain = chain(p, fc)
				needc := (int64(size) + int64(res.ClusterBytes) - 1) / int64(res.ClusterBytes)
				if int64(len(f.Chain)) < needc {
					res.bad("%s: chain of %d clusters too short for size %d", p, len(f.Chain), size)
				}
				cs := f.Chain
				sz := size
				f.Content = func() []byte {
					b := clusterBytes(cs)
					if int(sz) < len(b) {
						b = b[:sz]
					}
					return b
				}
			}
			res.Files = append(res.Files, f)
		}
		if fixedLen == 0 && path != "" && (!sawDot || !sawDotDot) {
			res.note("%s: sub-directory lacks . or .. entries", path)
		}
	}
	if typ == 32 {
		rc := binary.LittleEndian.Uint32(bs[44:48])
		walkDir("", rc, 0, 0, 0, 0)
	} else {
		walkDir("", 0, res.RootDirOff, rootEnt*32, 0, 0)
	}
	// lost clusters
	for c := 2; c < n; c++ {
		v := res.fat[c]
		if v == 0 {
			res.FreeClusters++
			continue
		}
		res.UsedClusters++
		if res.badMark(v) {
			continue
		}
		if _, ok := owner[uint32(c)]; !ok {
			res.bad("cluster %d is marked used (%#x) but no file or directory owns it", c, v)
		}
	}
	return res
}

// ProblemClass reduces a problem message to a stable class (digits and paths stripped).
func ProblemClass(p string) string {
	var sb strings.Builder
	skip := false
	for _, c := range p {
		if c == '/' {
			skip = true
		}
		if skip {
			if c == ':' || c == ' ' {
				skip = false
			} else {
				continue
			}
		}
		if c >= '0' && c <= '9' {
			continue
		}
		sb.WriteRune(c)
	}
	s := strings.Join(strings.Fields(sb.String()), " ")
	if len(s) > 60 {
		s = s[:60]
	}
	return s
}
