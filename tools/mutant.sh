#!/bin/bash
# tools/mutant.sh <patch.diff> <tier> <check-id>...   applies a seeded change to /repo, runs the checks, reverts.
P="$1"; TIER="$2"; shift 2
cd /repo || exit 2
if ! git diff --quiet; then echo "repo dirty"; exit 2; fi
if ! git apply --3way "$P" 2>/dev/shm/mut-apply.log; then cat /dev/shm/mut-apply.log; git reset -q; git checkout -- . ; echo "APPLY-FAILED"; exit 3; fi
git reset -q
for id in "$@"; do
  out=$(cd /verif && ./check.sh $id $TIER 2>&1); rc=$?
  echo "== $id rc=$rc"; echo "$out" | grep -E "VIOLATION|signature:|INFRA|KNOWN" | head -8; echo "$out" | tail -1
done
cd /repo && git checkout -- . && git status --short | head
# evidence files were rewritten by the mutant run: restore them from git if tracked
cd /verif && git checkout -- evidence 2>/dev/null; rm -rf /verif/replay/*
