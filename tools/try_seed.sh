#!/bin/bash
# tools/try_seed.sh <seed-dir-name|patch-file> <tier> <check>... : run checks against one seeded change in a private scratch
# worktree of /repo (never /repo itself) with a scratch evidence root; prints result lines; removes the worktree.
S="$1"; TIER="$2"; shift 2
if [ -f "$S" ]; then p="$S"; s=$(basename $(dirname "$S")); else d=/verif/seeded/$S; s=$S; p=$d/patch.diff; [ -f $d/patch.rebased.diff ] && p=$d/patch.rebased.diff; fi
WT=/tmp/mut/wt/try-$$; ROOT=/dev/shm/try-root-$$
git -C /repo worktree add --detach $WT HEAD >/dev/null 2>&1 || { echo "cannot create worktree"; exit 2; }
trap 'git -C /repo worktree remove --force $WT >/dev/null 2>&1; rm -rf $ROOT' EXIT
mkdir -p $ROOT/evidence $ROOT/replay; cp /verif/known_findings.json $ROOT/
if ! git -C $WT apply --3way $p >/dev/null 2>&1; then echo "| $s | DOES-NOT-APPLY |"; exit 3; fi
git -C $WT reset -q
for c in "$@"; do
  out=$(cd /verif && VERIF_REPO=$WT VERIF_ROOT_OVERRIDE=$ROOT ./check.sh $c $TIER 2>&1); rc=$?
  sig=$(echo "$out" | grep -m1 "signature:" | sed 's/^ *signature: //' | cut -c1-140)
  case $rc in 0) res="not detected";; 1) res="DETECTED";; *) res="INFRA rc=$rc";; esac
  echo "| $s | $c $TIER | $res | $sig |"
  [ -n "$VERBOSE" ] && echo "$out" | tail -${VERBOSE}
done
