#!/bin/bash
# tools/confirm_seed.sh Cnn A|B : confirms a sub-agent's seeded change in the scratch worktree /tmp/mut/wt/Cnn
# (checked out at /repo's current HEAD): patch applies, baseline suite still passes, demo fails with / passes without.
# On success copies patch.diff, demo_test.go, meta.json to /verif/seeded/Cnn-A/ and appends what was run.
ID=$1; V=$2; SRC=/tmp/mut/out/$ID/$V; WT=/tmp/mut/wt/$ID-$V
export GOFLAGS=-mod=mod GOPROXY=off GOSUMDB=off GOTOOLCHAIN=local
[ -f $SRC/patch.diff ] || { echo "no patch"; exit 2; }
cd $WT || exit 2
git checkout -q -- . ; git clean -fdq; git checkout -q --detach $(git -C /repo rev-parse HEAD) || exit 2
PKG=$(python3 -c "import json;print(json.load(open('$SRC/meta.json'))['demo_pkg_dir'])")
RUN=$(python3 -c "import json;print(json.load(open('$SRC/meta.json'))['demo_run'])")
git apply --3way $SRC/patch.diff >/dev/null 2>&1 || { echo "$ID-$V APPLY-FAILED"; git checkout -q -- .; git reset -q; exit 3; }
git reset -q
BL=$(/verif/baseline_off.sh $WT | head -1)
cp $SRC/demo_test.go $WT/$PKG/zz_seed_demo_test.go
go1.26 test -vet=off -count=1 -run "$RUN" ./$PKG/ >/dev/shm/seed-with.log 2>&1; WITH=$?
git checkout -q -- .
go1.26 test -vet=off -count=1 -run "$RUN" ./$PKG/ >/dev/shm/seed-without.log 2>&1; WITHOUT=$?
rm -f $WT/$PKG/zz_seed_demo_test.go
echo "$ID-$V baseline=[$BL] demo_with_patch_rc=$WITH demo_without_patch_rc=$WITHOUT"
if echo "$BL" | grep -q "stable_missing=0" && [ $WITH -ne 0 ] && [ $WITHOUT -eq 0 ]; then
  D=/verif/seeded/$ID-$V; mkdir -p $D; cp $SRC/patch.diff $SRC/demo_test.go $D/
  python3 - <<PY
import json
m=json.load(open('$SRC/meta.json'))
m['confirmed_by_me']={'at_repo_commit':'$(git -C /repo rev-parse --short HEAD)','baseline':'$BL','demo_with_patch_exit':$WITH,'demo_without_patch_exit':$WITHOUT,
 'ran':['git apply --3way patch.diff (scratch worktree $WT)','/verif/baseline_off.sh $WT','go1.26 test -vet=off -count=1 -run $RUN ./$PKG/ (with, then without the patch)']}
json.dump(m,open('$D/meta.json','w'),indent=1)
PY
  echo "  CONFIRMED -> $D"
else
  echo "  NOT CONFIRMED"; tail -5 /dev/shm/seed-with.log /dev/shm/seed-without.log
fi
