#!/bin/bash
# mkprompt.sh Cnn V flavour-key
ID=$1; V=$2; F=$3
case $F in
 seq) FL="a multi-step sequence of operations that reaches a non-initial state (something that only happens after a structure has grown, shrunk, been reused or been re-opened), or two cooperating code sites that each look fine alone.";;
 ses) FL="state that outlives one call or one object: something cached in memory versus what is on disk, a second handle open on the same file or directory, an operation through one object that another object (or a later session that re-opens the image) observes, or an image that was written by an earlier session and is now modified.";;
 ari) FL="arithmetic at a boundary: an integer width conversion (16/32/64 bit), rounding or alignment, an off-by-one exactly at a sector / block / cluster / entry-count boundary, or a size or count just above or below a threshold of the on-disk format.";;
 err) FL="an error path or a limit: a call that must be refused (no space left, directory or table full, name too long, invalid argument, read-only) or that sits exactly at a limit - the change makes the failing path leave something behind, accept what must be refused, or refuse / mishandle what is just inside the limit.";;
 opt) FL="a non-default option or environment: it manifests only under one option, feature flag, sector size, block size, compressor, start offset or mode that is not the default (for example 4096-byte sectors, a non-zero start offset, a feature switched off, an unusual Finalize / Create option), while the default configuration stays correct.";;
 inp) FL="an unusual but legal input or configuration (a boundary size, geometry, option combination, name shape, field value), or a fault / crash / thread interleaving at one particular point.";;
esac
sed -e "s#@PROP@#/tmp/mut/out/$ID/property.txt#g" -e "s#@WT@#/tmp/mut/wt/$ID-$V#g" -e "s#@OUT@#/tmp/mut/out/$ID/$V#g" -e "s#@ID@#$ID#g" -e "s#@FLAVOUR@#$FL#g" /tmp/mut/PROMPT.txt
