#!/bin/bash
# tools/confirm_many.sh C01 C02 ... : confirm seeds E and F of each property (scratch worktrees /tmp/mut/wt/<id>)
for id in "$@"; do for v in ${SEED_VARIANTS:-E F}; do /verif/tools/confirm_seed.sh $id $v; done; done
