#!/bin/bash
# tools/confirm_rebased.sh Cnn-X : re-confirms a kept seed on the current tree with its patch.rebased.diff (or patch.diff): applies in a
# scratch worktree, baseline suite still passes, the demonstration fails with and passes without. Records the result in meta.json.
S=$1; D=/verif/seeded/$S; WT=/tmp/mut/wt/reb-$$
export GOFLAGS=-mod=mod GOPROXY=off GOSUMDB=off GOTOOLCHAIN=local
P=$D/patch.diff; [ -f $D/patch.rebased.diff ] && P=$D/patch.rebased.diff
git -C /repo worktree add --detach $WT HEAD >/dev/null 2>&1 || exit 2
trap 'git -C /repo worktree remove --force $WT >/dev/null 2>&1' EXIT
cd $WT
PKG=$(python3 -c "import json;print(json.load(open('$D/meta.json'))['demo_pkg_dir'])")
RUN=$(python3 -c "import json;print(json.load(open('$D/meta.json'))['demo_run'])")
git apply --3way $P >/dev/null 2>&1 || { echo "$S APPLY-FAILED"; exit 3; }
git reset -q
BL=$(/verif/baseline_off.sh $WT | head -1)
cp $D/demo_test.go $WT/$PKG/zz_seed_demo_test.go
go1.26 test -vet=off -count=1 -run "$RUN" ./$PKG/ >/dev/shm/reb-with.log 2>&1; WITH=$?
git checkout -q -- .
go1.26 test -vet=off -count=1 -run "$RUN" ./$PKG/ >/dev/shm/reb-without.log 2>&1; WITHOUT=$?
rm -f $WT/$PKG/zz_seed_demo_test.go
echo "$S ($(basename $P)) baseline=[$BL] demo_with_patch_rc=$WITH demo_without_patch_rc=$WITHOUT"
python3 - <<PY
import json
m=json.load(open('$D/meta.json'))
m.setdefault('reconfirmed',[]).append({'at_repo_commit':'$(git -C /repo rev-parse --short HEAD)','patch':'$(basename $P)','baseline':'$BL','demo_with_patch_exit':$WITH,'demo_without_patch_exit':$WITHOUT})
json.dump(m,open('$D/meta.json','w'),indent=1)
PY
