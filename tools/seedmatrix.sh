#!/bin/bash
# tools/seedmatrix.sh [tier] [seed-dir-pattern]: runs every kept seeded change against the check(s) of its property in a
# scratch worktree of /repo (never in /repo itself) with a scratch evidence root, and writes seeded/RESULTS.md.
TIER="${1:-quick}"; PAT="${2:-*}"
WT=/tmp/mut/wt/matrix; ROOT=/dev/shm/seedmatrix-root
git -C /repo worktree remove --force $WT >/dev/null 2>&1; rm -rf $WT
git -C /repo worktree add --detach $WT HEAD >/dev/null 2>&1 || { echo "cannot create worktree"; exit 2; }
mkdir -p $ROOT/evidence $ROOT/replay; cp /verif/known_findings.json $ROOT/
OUT=/verif/seeded/RESULTS.md
[ "$PAT" = "*" ] && echo "| seed | patch | check | result | first signature |" > $OUT && echo "|---|---|---|---|---|" >> $OUT
for d in /verif/seeded/$PAT/; do
  s=$(basename $d); prop=${s%%-*}
  p=$d/patch.diff; [ -f $d/patch.rebased.diff ] && p=$d/patch.rebased.diff
  git -C $WT checkout -q -- . ; git -C $WT clean -fdq
  if ! git -C $WT apply --3way $p >/dev/null 2>&1; then git -C $WT reset -q; git -C $WT checkout -q -- .; echo "| $s | $(basename $p) | $prop | DOES-NOT-APPLY | |" | tee -a $OUT; continue; fi
  git -C $WT reset -q
  checks="$prop"; [ -f $d/also_checks ] && checks="$prop $(cat $d/also_checks)"
  for c in $checks; do
    out=$(cd /verif && VERIF_REPO=$WT VERIF_ROOT_OVERRIDE=$ROOT ./check.sh $c $TIER 2>&1); rc=$?
    sig=$(echo "$out" | grep -m1 "signature:" | sed 's/^ *signature: //' | cut -c1-110)
    case $rc in 0) res="not detected";; 1) res="DETECTED";; *) res="INFRA rc=$rc";; esac
    echo "| $s | $(basename $p) | $c $TIER | $res | $sig |" | tee -a $OUT
  done
done
git -C $WT checkout -q -- . ; git -C /repo worktree remove --force $WT >/dev/null 2>&1
rm -rf $ROOT
