#!/bin/bash
# tools/seedmatrix_par.sh [tier] [lanes]: the whole seed matrix (every kept seeded change against the check(s) of its property), several
# seeds at a time, each lane in its own scratch worktree of /repo and with its own scratch evidence root; rewrites seeded/RESULTS.md.
TIER="${1:-quick}"; LANES="${2:-4}"; PAT="${3:-C*}"; OUTFILE="${4:-/verif/seeded/RESULTS.md}"
OUT=$OUTFILE; TMP=/dev/shm/seedmatrix-par; rm -rf $TMP; mkdir -p $TMP
ls -d /verif/seeded/$PAT/ | xargs -n1 basename > $TMP/all
lane() {
  L=$1; WT=/tmp/mut/wt/matrix$L; ROOT=$TMP/root$L
  git -C /repo worktree remove --force $WT >/dev/null 2>&1; rm -rf $WT
  git -C /repo worktree add --detach $WT HEAD >/dev/null 2>&1 || { echo "cannot create worktree $WT"; return; }
  mkdir -p $ROOT/evidence $ROOT/replay; cp /verif/known_findings.json $ROOT/
  awk -v l=$L -v n=$LANES 'NR%n==l' $TMP/all | while read s; do
    d=/verif/seeded/$s; prop=${s%%-*}
    p=$d/patch.diff; [ -f $d/patch.rebased.diff ] && p=$d/patch.rebased.diff
    git -C $WT checkout -q -- . ; git -C $WT clean -fdq
    if ! git -C $WT apply --3way $p >/dev/null 2>&1; then git -C $WT reset -q; git -C $WT checkout -q -- .; echo "| $s | $(basename $p) | $prop | DOES-NOT-APPLY | |" >> $TMP/out$L; continue; fi
    git -C $WT reset -q
    checks="$prop"; [ -f $d/also_checks ] && checks="$prop $(cat $d/also_checks)"
    for c in $checks; do
      out=$(cd /verif && VERIF_BUDGET_S=${MATRIX_BUDGET_S:-400} VERIF_REPO=$WT VERIF_ROOT_OVERRIDE=$ROOT ./check.sh $c $TIER 2>&1); rc=$?
      sig=$(echo "$out" | grep -m1 "signature:" | sed 's/^ *signature: //' | cut -c1-110)
      case $rc in 0) res="not detected";; 1) res="DETECTED";; *) res="INFRA rc=$rc";; esac
      echo "| $s | $(basename $p) | $c $TIER | $res | $sig |" >> $TMP/out$L
    done
  done
  git -C $WT checkout -q -- . ; git -C /repo worktree remove --force $WT >/dev/null 2>&1
}
for L in $(seq 0 $((LANES-1))); do lane $L & done; wait
{ echo "| seed | patch | check | result | first signature |"; echo "|---|---|---|---|---|"; cat $TMP/out* | sort; } > $OUT
grep -c DETECTED $OUT; grep -v DETECTED $OUT | tail -n +3
rm -rf $TMP
