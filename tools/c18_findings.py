#!/usr/bin/env python3
# Adds C18 known findings (one per signature) from evidence files given on the command line. Manual tool: the check
# never writes known_findings.json itself.
import json,sys,re
p='/verif/known_findings.json'; d=json.load(open(p))
have={f['signature'] for f in d['findings']}
kinds={'fat':'FAT','fat12':'FAT12','fat16':'FAT16','fat32':'FAT32','ext-MiB':'ext4 (metadata_csum)','ext-MiB-nocsum':'ext4 (no checksums)','ext4-1MiB':'ext4 (metadata_csum)','ext4-1MiB-nocsum':'ext4 (no checksums)','iso-plain':'ISO9660','iso-rr':'ISO9660 Rock Ridge','iso-rr-joliet':'ISO9660 RR+Joliet','squashfs-gzip':'squashfs (gzip)','squashfs-nocompress':'squashfs (uncompressed)'}
n=0
for f in sys.argv[1:]:
    ev=json.load(open(f))
    for sig,cnt in ev['coverage'].get('violation_signatures',{}).items():
        if sig in have or not sig.startswith('c18|'): continue
        parts=sig.split('|')
        img=kinds.get(parts[1],parts[1])
        rest='|'.join(parts[2:])
        if 'panic' in rest:
            what=f"a single corrupted field in a {img} image makes opening/walking/reading panic: {rest.replace('panic: ','')} (site normalised; {cnt} enumerated cases in the run that recorded it)"
        elif 'endless-reading' in rest:
            what=f"a single corrupted field in a {img} image makes the walk read the device without end (read budget of 50x the clean walk exceeded), e.g. a cluster/extent/directory structure that refers back to itself"
        elif 'process-death' in rest:
            what=f"a single corrupted field in a {img} image kills the process ({rest}) under a 2 GiB address-space limit"
        elif 'allocation' in rest:
            what=f"a single corrupted field in a {img} image makes the walk allocate far out of proportion to the image"
        elif 'hang' in rest:
            what=f"a single corrupted field in a {img} image makes the walk stop making progress (no case finished within 40 s, reproduced twice)"
        else:
            what=f"{img}: {rest}"
        d['findings'].append({"property":"C18","signature":sig,"what":what}); have.add(sig); n+=1
json.dump(d,open(p,'w'),indent=1)
print("added",n)
