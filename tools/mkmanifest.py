#!/usr/bin/env python3
# Regenerates /verif/MANIFEST.json from the table below (kept in one place so it is always schema-valid).
import json, subprocess, sys
CHECKS = {
 # id: (category, technique, text, note, design_ref)
 "C09": ("fault_enumeration", "exhaustive crash-point x torn-sector enumeration of the real Table.Write log, each crash image read back with the real gpt.Read/partition.Read",
         "For every ordered pair of table shapes the real Write runs on a logging device; every prefix of the WriteAt/Sync log and every subset of the differing 512-byte sectors of unsynced writes (all 2^n for n<=12, generating family above) is materialised and must read as exactly old or exactly new; completed writes must read as new from the primary.",
         "memdev write/sync log is the crash model (writes before the last Sync durable; unsynced sectors persist independently, 512-byte granularity)", "DESIGN.md §2.5, §3 C09"),
 "C15": ("fault_enumeration", "exhaustive single-site (and field-pair) corruption enumeration over the bytes the reader consumes, run in RLIMIT_AS worker processes",
         "Every byte the clean and the backup-fallback readers consume x byte/word patterns, raw and with CRCs recomputed independently, all pairs of size-determining header fields x boundary values, all truncation points; oracles: no panic, no process death under a 2 GiB address-space limit, allocation bound, read budget, and returned tables must equal what an independent parser decodes from a CRC-valid copy.",
         "worker processes attribute a death to the in-flight case and require it to reproduce twice; gptck + stdlib crc32 as independent decoder", "DESIGN.md §2.6, §3 C15"),
 "C02": ("exploration", "bounded-exhaustive enumeration of table inputs executed on the real Write/Read + independent on-disk parser",
         "Every table of a spelled-out finite cross product (entries, indices, spellings, geometries, names, attributes, types, disk sizes, sector sizes, PMBR, prior content) is written by the real code and compared via gpt.Read/mbr.Read, partition.Read, Disk.GetPartition and an independent UEFI-spec parser; exhaustive over that domain, says nothing outside it.",
         "memdev in-memory device; gptck (independent parser written from the UEFI spec) defines on-disk validity", "DESIGN.md §3 C02"),
}
NOT_APPLICABLE = []
def main():
    ids = json.load(open('/verif/tools/ids.json')) if False else None
    checks=[]
    for cid,(cat,tech,text,note,ref) in sorted(CHECKS.items()):
        checks.append({
          "property_id": cid,
          "quick_cmd": f"./check.sh {cid} quick",
          "thorough_cmd": f"./check.sh {cid} thorough",
          "evidence_file": f"/verif/evidence/{cid}.json",
          "replay_cmd_template": "./replay.sh {path}",
          "engine": "vmc",
          "level_claimed": {"category": cat, "text": text, "design_ref": ref},
          "level_note": note,
          "technique": tech,
        })
    claimed=set(CHECKS)
    allids=[json.loads(l)['id'] for l in open('/verif/properties.jsonl')]
    na=[x for x in NOT_APPLICABLE]
    naids={x['property_id'] for x in na}
    for i in allids:
        if i not in claimed and i not in naids:
            na.append({"property_id": i, "reason": "check not built yet in this round (model-checking driver planned in DESIGN.md §3); not claimed until its check runs clean"})
    m={"version":1,
       "setup_cmd":"./setup.sh",
       "hooks":{"guard":"go build -overlay (generated at check time by mc/cmd/mkoverlay from the current /repo tree; no source changes, no build tag needed: a plain go build/test of /repo never sees the hooks)",
                "enable":"./check.sh runs `go run ./cmd/mkoverlay` then `go build -overlay <json>`: time.Now()->verifhook/vtime.Now() in all non-test files, import sync->verifhook/vsync in filesystem/squashfs, plus in-package zz_verif_export.go files",
                "baseline_off_cmd":"./baseline_off.sh",
                "source_commits":[],
                "add_only":True},
       "engines":[{"name":"vmc","path":"/verif/mc","serves_properties":sorted(claimed),"kind_free_text":"hand-written explicit-state / bounded-exhaustive explorers executing the real library on an in-memory device (BFS over operation histories with state dedup, crash-state enumeration, preemption-bounded scheduler, single-site corruption enumeration)"}],
       "checks":checks,
       "notes":"Fixes to genuine defects are unguarded 'fix:' commits in /repo, listed in known_findings.json. All checks rebuild from /repo's working tree via check.sh.",
       "not_applicable":na}
    json.dump(m,open('/verif/MANIFEST.json','w'),indent=1)
    print("manifest:",len(checks),"checks,",len(na),"not claimed")
main()
