#!/usr/bin/env python3
# Regenerates /verif/MANIFEST.json from the table below (kept in one place so it is always schema-valid).
import json, subprocess, sys
CHECKS = {
 # id: (category, technique, text, note, design_ref)
 "C09": ("fault_enumeration", "exhaustive crash-point x torn-sector enumeration of the real Table.Write log, each crash image read back with the real gpt.Read/partition.Read",
         "For every ordered pair of table shapes the real Write runs on a logging device; every prefix of the WriteAt/Sync log and every subset of the differing 512-byte sectors of unsynced writes (all 2^n for n<=12, generating family above) is materialised and must read as exactly old or exactly new; completed writes must read as new from the primary.",
         "memdev write/sync log is the crash model (writes before the last Sync durable; unsynced sectors persist independently, 512-byte granularity)", "DESIGN.md §2.5, §3 C09"),
 "C15": ("fault_enumeration", "exhaustive single-site (and field-pair) corruption enumeration over the bytes the reader consumes, run in RLIMIT_AS worker processes",
         "Every byte the clean and the backup-fallback readers consume x byte/word patterns, raw and with CRCs recomputed independently, all pairs of size-determining header fields x boundary values, all truncation points; oracles: no panic, no process death under a 2 GiB address-space limit, allocation bound, read budget, and returned tables must equal what an independent parser decodes from a CRC-valid copy.",
         "worker processes attribute a death to the in-flight case and require it to reproduce twice; gptck + stdlib crc32 as independent decoder", "DESIGN.md §2.6, §3 C15"),
 "C01": ("model_checking", "explicit-state BFS over operation histories on the real FAT code, state dedup on (volume bytes, in-memory FAT, reference tree), reference-model + differential-acceptance oracles",
         "All operation sequences up to the completed depth (3 quick / 4 thorough; fill-empty-refill and root-exhaustion scenarios deeper) over colliding alphabets, from the empty volume and from prepared non-initial states (multi-cluster directory, all low clusters unusable, root nearly full), on FAT12/16/32 at several sizes and start offsets; after every transition the live view, the re-opened view and the same-handle read-back must equal a plain in-memory tree, refused calls must leave everything else unchanged, and the same logical state must accept the same space-consuming call whatever history led to it.",
         "reference tree (plain map) is the specification; contents written by a letter are a function of the letter; exhaustive within the stated alphabets/depth only", "DESIGN.md §2.3, §3 C01"),
 "C08": ("model_checking", "same explicit-state BFS as C01, oracle = independent FAT structural checker on the raw bytes after every transition (accepted or refused), plus Create sweep over size-table boundaries",
         "After Create and after every explored transition an independent reader (written from the FAT specification, shares no code) checks boot sector geometry vs the range given, FAT32 backup boot sector and FSInfo, equality of the FAT copies, every chain in range / terminated / long enough, no cross-links, no lost clusters.",
         "fatck defines structural soundness; '.'/'..' target clusters are noted, not judged (not in the statement)", "DESIGN.md §3 C08"),
 "C10": ("model_checking", "explicit-state BFS to fixpoint over the handle state graph (cursor, closed, last call kind) on real file handles of every filesystem, bytes.Reader semantics as oracle",
         "For each filesystem (fat12/16/32, ext4 single- and multi-extent, iso9660, squashfs with and without fragments) and file sizes around the block size, every reachable handle state under the alphabet Read{0,1,7,c-1,c,c+1,4c} x Seek{3 whences x 8 offsets} x Close is expanded with every letter (fixpoint for block sizes <= 1 KiB, depth 4/5 for iso/squashfs); returned bytes, counts, EOF timing, seek positions and behaviour after Close are compared with the io.Reader/io.Seeker contract.",
         "a handle state is merged on (cursor, closed, kind of the last call); expansion stops for cursors more than two blocks past EOF", "DESIGN.md §3 C10"),
 "C14": ("model_checking", "the C01 explicit-state exploration executed in three child processes per SOURCE_DATE_EPOCH with different owned wall clocks and a different start offset; per-transition volume digests compared",
         "Every history of the FAT explorer (depth 3 quick / 4 thorough, FAT12/16/32, reproducible=true) is executed in three separate processes whose injected clocks differ (by a year and a second; advancing at every call) and, in one, with the volume at 1 MiB; the SHA-256 of the volume's byte range must agree after every transition for each SOURCE_DATE_EPOCH in {0,1,315532799,1700000001}. Every table of the C02 domain with GUIDs given is written twice (identical bytes) and re-written after being read (no change).",
         "time.Now() is routed through the vtime seam by the build overlay, so a stray clock read shows deterministically", "DESIGN.md §3 C14"),
 "C03": ("model_checking", "explicit-state BFS over operation histories (FAT12/16/32, ext4) with a write-range monitor on the device, incl. fill-to-ENOSPC letters; plus enumerated Finalize and Table.Write cases under the same monitor",
         "Volumes are placed at start in {0, 512, 1 MiB, 4 GiB+512} with sizes that are not multiples of the cluster/block size; every WriteAt reaching the device during Create, every explored transition (depth 3/4, plus fill-small-files / fill-directories / 70%-writes letters that drive the volume to ENOSPC) is checked against [start,start+size); ISO9660/squashfs Finalize at four start offsets and every C02 table write are checked the same way (tables: only the MBR entry area/signature, GPT headers and entry arrays; boot code and partition data compared byte for byte).",
         "memdev range monitor sees every write that reaches the medium; the call site comes from the first offending write's stack", "DESIGN.md §3 C03"),
 "C04": ("model_checking", "explicit-state BFS over operation histories on the real ext4 code with a reference tree of files/directories/symlinks/attributes; live and re-opened views compared after every transition",
         "Scenarios files / links / attrs from the empty volume and bigdir (directory longer than one block) / extents (two files with more than four interleaved extents each) / enospc from prepared states, on 1 KiB and 4 KiB block sizes, with and without metadata checksums and journal, at start 0 and 1 MiB; depth 3 quick / 4 thorough. Listings, contents (through the writing handle, a fresh handle and after re-opening from the bytes), link targets and every attribute an accepted call set must equal the reference; a panic anywhere is a violation.",
         "attributes are observed through Stat; uuid randomness and the clock are owned so images are a function of the history", "DESIGN.md §3 C04"),
 "C05": ("model_checking", "same explicit-state BFS as C04 with /usr/sbin/e2fsck -f -n and debugfs as oracle after Create and after every transition, plus a Create-parameter matrix each followed by a depth-2 exploration",
         "After Create and after every explored transition (accepted or refused) the volume bytes are handed to e2fsck -f -n, which must exit 0, and every regular file is extracted with debugfs and compared with what was written. Create matrix: block size 1K/2K/4K x volume sizes single-group to multi-group x feature sets (64bit, flex_bg, sparse_super2 flag and SparseSuperVersion 2, resize inode, huge_file, dir_index, blocks-per-group, inode ratio/count) x journal x metadata_csum; e2fsck results are memoised by image digest.",
         "e2fsprogs 1.47.0 defines 'clean'; exploration does not continue behind a state e2fsck rejects; three sparse_super2 Create configurations are listed as known findings", "DESIGN.md §3 C05"),
 "C13": ("exploration", "bounded-exhaustive enumeration of partition geometries x reader shapes executed on the real Write/ReadPartitionContents and CopyPartitionRaw over a sparse monitored device",
         "Full cross product of table kind, logical/physical sector sizes, start sector (incl. beyond 4 GiB and near 2^32 sectors), size (1 sector to >= 4 GiB), reader length (exact, one byte short, one byte long, empty) and reader chunking (whole buffers, 1/7/513-byte pieces, data together with io.EOF); every WriteAt must lie inside the partition, the stored bytes must equal the reader's at the partition's own offset, success iff exactly the partition size was supplied, ReadPartitionContents must deliver exactly the partition's bytes, CopyPartitionRaw must reproduce the source and refuse a smaller target.",
         "sparse position-dependent content; memdev write monitor", "DESIGN.md §3 C13"),
 "C06": ("exploration", "bounded-exhaustive enumeration of workspace trees x Finalize option sets, each image read back with the real reader and with an independent ECMA-119 PVD walker",
         "Every ordered forest with <= 4 nodes and height <= 3 over colliding/long/non-ASCII names and sizes around the sector size, plus fixed shapes (deep chains, 300-entry directory, multi-MiB file, 8.3 collision groups, exact-sector-fit directories, sector-multiple files next to sub-directories), x {plain, RockRidge, Joliet, both} x block size x start offset x volume identifier; directories, names (exact under RR/Joliet, documented upper-case 8.3 mapping otherwise) and bytes must equal the source, and the independent reader must find the same files at non-overlapping extents inside the volume space.",
         "isock defines what the PVD tree contains; two defect classes (Joliet without Rock Ridge; block size > 2048) are listed as known findings", "DESIGN.md §3 C06"),
 "C07": ("exploration", "bounded-exhaustive enumeration of workspace trees x compressor/option sets, each image read back with the real reader and compared entry by entry; superblock checked against the device write log",
         "Every ordered forest with <= 4 nodes over colliding names and sizes around the block size with zero-run/compressible/incompressible contents, plus symlinks (relative, absolute, dangling, long), mixed-compressibility files, a 2000-entry directory, 530 fragment tails (> 512 fragment blocks) and a sparse file, x {default, gzip-9, xz, lz4, zstd} x fragments on/off x NoCompress*/NoPad x block size 4 KiB/128 KiB/1 MiB x cache size {default, 0, one block} x start {0, 1 MiB}. Comparing every option set against the same source makes the views identical across option sets; bytes_used must equal the highest byte written (modulo 4 KiB padding) and the table starts must be ordered and inside.",
         "write log of memdev gives the bytes actually written", "DESIGN.md §3 C07"),
 "C17": ("model_checking", "controlled cooperative scheduler over the real squashfs LRU and FileSystem code + stateless DFS over all interleavings up to a preemption bound; separate free-running -race pass",
         "Harness U drives the real lru (get on two or three colliding positions, a failing fetch, concurrent setMaxBlocks) with 2-3 threads for maxBlocks in {0,1,2}; harness I drives 2-3 readers (own handles, files sharing one fragment block and the metadata blocks, a multi-block file) on a real squashfs image with cache {0, 1 block, 2 blocks, default} and concurrent SetCacheSize. Every interleaving at scheduling points (each mutex Lock/Unlock, each fetch, each device ReadAt) with at most 2 (quick) / 3 (thorough) preemptions is executed; each must finish (deadlock = no enabled thread, livelock = step horizon), return the bytes of the requested position / the sequential file contents, and leave a well-formed cache. A -race build then runs the same reader bodies free-running (GOMAXPROCS 1/4/16, 2-32 goroutines).",
         "sync in filesystem/squashfs is redirected to the vsync shim by the build overlay; memory-model effects beyond happens-before are left to the race detector", "DESIGN.md §2.4, §3 C17"),
 "C11": ("model_checking", "exhaustive enumeration of entry-point histories (no state merging) on fresh read-only opens of every filesystem/table image, write log and image digest as oracle",
         "For each filesystem type (fat12/16/32, ext4, iso9660, squashfs) on a GPT partition, an MBR partition and the whole disk, and for each way of being read-only (file.New(readOnly), a backend whose Writable() fails, diskfs.Open(ReadOnly) and file.OpenFromPath(readOnly) on real files, plus writable opens for reading calls and for finalized ISO/squashfs, plus disks whose primary GPT is damaged), every history of up to 2 (thorough 3) of the ~30 public reading and mutating entry points is executed: every mutating call must return an error, no WriteAt may reach the device, the image hash must be unchanged, reading calls must succeed.",
         "in-memory side effects of refused calls are not judged", "DESIGN.md §3 C11"),
 "C12": ("exploration", "bounded-exhaustive enumeration of (type, size, placement, label, previous occupant) configurations, each created through disk.CreateFilesystem and re-detected on a fresh disk.Disk",
         "Cross product of the six filesystem types, sizes around every FAT cluster-count threshold as the Create tables produce them (sector-by-sector around 4085 clusters, 2 KiB / 4 KiB steps around 65525 and the FAT12 maximum), whole disk / GPT partition 1 / GPT partition 3 / MBR partition 1, three labels, and the range previously holding each other filesystem type or bytes that look like FAT directory slots; plus blank ranges. The fresh disk must report the table type, return the filesystem as its own type with its label, the probe file and nothing else.",
         "ISO9660 is created with a 2048-byte and squashfs with a 4096-byte logical block size, as the library requires", "DESIGN.md §3 C12"),
 "C16": ("exploration", "bounded-exhaustive enumeration of source trees x (source kind, destination kind) pairs for CopyFileSystem, and of every single-point mutation x argument order for CompareFS",
         "Copy: every tree of the grammar (<= 4 nodes, sizes around 2048, excluded names at the root and nested, files around the 32 KiB compare chunk) from {MapFS, os directory, fat32, ext4, iso9660, squashfs} into {fat12, fat16, fat32, ext4}; the destination is walked independently and compared with the source's own view minus the excluded names, CompareFS on the faithful copy must be nil in both orders, and a 64 MiB+1234-byte file from a synthetic sparse source (last bytes delivered together with io.EOF) goes through the streaming branch. Compare: for every tree, every single-point mutation (per file: flip first / last / byte 32767 / byte 32768, drop the last byte, append a byte, remove, turn into a directory; per directory: add a file, add a directory, remove, turn into a file) must make CompareFS return an error in both argument orders; identical trees must compare equal.",
         "symlinks and special files are outside the statement", "DESIGN.md §3 C16"),
 "C19": ("exploration", "bounded-exhaustive enumeration of attribute values and short attribute/content-write histories, observed through Stat/Sys/ReadLink/FAT getters after re-opening the image, with a frame condition on everything not touched",
         "ext4: every permission/special bit alone and combined, uid/gid over the 16/32-bit boundaries and -1, times from 1901 to 2446 with nanoseconds, on a file, a directory and through a symlink; symlink targets 1..4095 bytes around the inline limit; all ordered pairs (thorough: triples) of attribute calls and content writes; debugfs stat as second opinion. FAT12/16/32: times across 1980..2107 with odd seconds, every subset of Hidden/System/ReadOnly/Archive, interleaved with writes and calls on other files. squashfs and Rock Ridge ISO: workspace modes x owners x mtimes x link-target lengths at Finalize. Every attribute set must read back (to the format's resolution), every other attribute of every entry must be unchanged, kinds never change.",
         "two Rock Ridge long-symlink panics are listed as known findings", "DESIGN.md §3 C19"),
 "C02": ("exploration", "bounded-exhaustive enumeration of table inputs executed on the real Write/Read + independent on-disk parser",
         "Every table of a spelled-out finite cross product (entries, indices, spellings, geometries, names, attributes, types, disk sizes, sector sizes, PMBR, prior content) is written by the real code and compared via gpt.Read/mbr.Read, partition.Read, Disk.GetPartition and an independent UEFI-spec parser; exhaustive over that domain, says nothing outside it.",
         "memdev in-memory device; gptck (independent parser written from the UEFI spec) defines on-disk validity", "DESIGN.md §3 C02"),
}
NOT_APPLICABLE = []
def main():
    ids = json.load(open('/verif/tools/ids.json')) if False else None
    checks=[]
    for cid,(cat,tech,text,note,ref) in sorted(CHECKS.items()):
        checks.append({
          "property_id": cid,
          "quick_cmd": f"./check.sh {cid} quick",
          "thorough_cmd": f"./check.sh {cid} thorough",
          "evidence_file": f"/verif/evidence/{cid}.json",
          "replay_cmd_template": "./replay.sh {path}",
          "engine": "vmc",
          "level_claimed": {"category": cat, "text": text, "design_ref": ref},
          "level_note": note,
          "technique": tech,
        })
    claimed=set(CHECKS)
    allids=[json.loads(l)['id'] for l in open('/verif/properties.jsonl')]
    na=[x for x in NOT_APPLICABLE]
    naids={x['property_id'] for x in na}
    for i in allids:
        if i not in claimed and i not in naids:
            na.append({"property_id": i, "reason": "check not built yet in this round (model-checking driver planned in DESIGN.md §3); not claimed until its check runs clean"})
    m={"version":1,
       "setup_cmd":"./setup.sh",
       "hooks":{"guard":"go build -overlay (generated at check time by mc/cmd/mkoverlay from the current /repo tree; no source changes, no build tag needed: a plain go build/test of /repo never sees the hooks)",
                "enable":"./check.sh runs `go run ./cmd/mkoverlay` then `go build -overlay <json>`: time.Now()->verifhook/vtime.Now() in all non-test files, import sync->verifhook/vsync in filesystem/squashfs, plus in-package zz_verif_export.go files",
                "baseline_off_cmd":"./baseline_off.sh",
                "source_commits":[],
                "add_only":True},
       "engines":[{"name":"vmc","path":"/verif/mc","serves_properties":sorted(claimed),"kind_free_text":"hand-written explicit-state / bounded-exhaustive explorers executing the real library on an in-memory device (BFS over operation histories with state dedup, crash-state enumeration, preemption-bounded scheduler, single-site corruption enumeration)"}],
       "checks":checks,
       "notes":"Fixes to genuine defects are unguarded 'fix:' commits in /repo, listed in known_findings.json. All checks rebuild from /repo's working tree via check.sh.",
       "not_applicable":na}
    json.dump(m,open('/verif/MANIFEST.json','w'),indent=1)
    print("manifest:",len(checks),"checks,",len(na),"not claimed")
main()
