#!/usr/bin/env python3
# tools/assemble_results.py <log>... : builds seeded/RESULTS.md from matrix / try_seed logs given in chronological order; for every
# (seed, check) the LAST result wins (a seed that was missed, then caught after an extension, shows the later run).
import sys,re,os
rows={}
for f in sys.argv[1:]:
    for ln in open(f, errors='replace'):
        ln=ln.strip()
        if not ln.startswith('| C'): continue
        cols=[c.strip() for c in ln.strip('|').split('|')]
        seed=cols[0]
        if len(cols)>=4 and cols[1].startswith('patch'):
            patch,check,res=cols[1],cols[2],cols[3]; sig='|'.join(cols[4:]).strip()
        else:  # try_seed format: | seed | check | result | sig |
            patch='';check,res=cols[1],cols[2]; sig='|'.join(cols[3:]).strip()
        if not os.path.isdir('/verif/seeded/'+seed): continue
        if not patch:
            patch='patch.rebased.diff' if os.path.exists(f'/verif/seeded/{seed}/patch.rebased.diff') else 'patch.diff'
        rows[(seed,check.split()[0])]=(seed,patch,check,res,sig)
out=["| seed | patch | check | result | first signature |","|---|---|---|---|---|"]
for k in sorted(rows): out.append("| "+" | ".join(rows[k])+" |")
open('/verif/seeded/RESULTS.md','w').write("\n".join(out)+"\n")
det=sum(1 for r in rows.values() if r[3]=='DETECTED')
print(len(rows),"rows,",det,"detected; not detected:",[k for k,r in rows.items() if r[3]!='DETECTED'])
have={k[0] for k in rows}
print("seeds without a row:",sorted(set(d for d in os.listdir('/verif/seeded') if d.startswith('C'))-have))
