#!/bin/bash
# tools/nokf_sigs.sh Cnn [tier]: run a check with the known findings of that property ignored; list signature + one message
P=$1; T=${2:-quick}; R=/dev/shm/nokf-$P; rm -rf $R; mkdir -p $R/evidence $R/replay
python3 - "$P" "$R" <<'PY'
import json,sys
d=json.load(open('/verif/known_findings.json'))
d['findings']=[f for f in d['findings'] if f['property']!=sys.argv[1]]
json.dump(d,open(sys.argv[2]+'/known_findings.json','w'))
PY
cd /verif && VERIF_BUDGET_S=${VERIF_BUDGET_S:-900} VERIF_ROOT_OVERRIDE=$R ./check.sh $P $T 2>&1 | grep -a -A1 "signature:" | grep -a -v "^--" | paste - - | cut -c1-${W:-300} | sort
