#!/bin/bash
# ./replay.sh <replay-file>: re-executes one recorded violating case on the current /repo tree, without any explorer.
set -u
HERE="$(cd "$(dirname "$0")" && pwd)"
export GOFLAGS=-mod=mod GOPROXY=off GOSUMDB=off GOTOOLCHAIN=local
SCR="/dev/shm/verif-rp-$$"; mkdir -p "$SCR/ov" "$SCR/tmp"; trap 'rm -rf "$SCR"' EXIT
export TMPDIR="$SCR/tmp" VERIF_SCRATCH="$SCR" VERIF_ROOT="$HERE"
cd "$HERE/mc" || exit 2
go1.26 run ./cmd/mkoverlay -repo /repo -hooks "$HERE/mc/hook/_src" -out "$SCR/ov" >/dev/null || exit 2
go1.26 build -overlay "$SCR/ov/overlay.json" -o "$SCR/vmc" ./cmd/vmc || exit 2
export VERIF_VMC="$SCR/vmc"
"$SCR/vmc" replay "$1"
