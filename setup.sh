#!/bin/bash
# MANIFEST.setup_cmd: warm the Go build cache (plain and -race builds of the harness against the overlay), offline.
export GOFLAGS=-mod=mod GOPROXY=off GOSUMDB=off GOTOOLCHAIN=local
HERE="$(cd "$(dirname "$0")" && pwd)"
SCR=/dev/shm/verif-setup-$$; mkdir -p "$SCR/ov"; trap 'rm -rf "$SCR"' EXIT
cd "$HERE/mc" || exit 1
cp /repo/go.sum go.sum
go1.26 run ./cmd/mkoverlay -repo /repo -hooks "$HERE/mc/hook/_src" -out "$SCR/ov" || exit 1
go1.26 build -overlay "$SCR/ov/overlay.json" -o "$SCR/vmc" ./cmd/vmc || exit 1
if grep -q racepass "$HERE/check.sh" 2>/dev/null; then
  go1.26 build -race -overlay "$SCR/ov/overlay.json" -o "$SCR/vmc-race" ./cmd/vmc || exit 1
fi
"$SCR/vmc" list
echo setup ok
