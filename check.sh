#!/bin/bash
# ./check.sh Cnn quick|thorough
# Regenerates the build overlay from the CURRENT /repo working tree, builds vmc against it and runs the check.
# exit 0 = property held on everything explored; 1 = VIOLATION line printed; 2 = INFRA-ERROR (never a silent pass)
set -u
ID="${1:?property id}"; TIER="${2:-${VERIF_TIER:-quick}}"
HERE="$(cd "$(dirname "$0")" && pwd)"
REPO="${VERIF_REPO:-/repo}"
export GOFLAGS=-mod=mod GOPROXY=off GOSUMDB=off GOTOOLCHAIN=local
export VERIF_ROOT="${VERIF_ROOT_OVERRIDE:-$HERE}"   # (the override is used only by tools/seedmatrix.sh)
GO=go1.26
SCR="/dev/shm/verif-$$"
mkdir -p "$SCR/ov" "$SCR/tmp" || { echo "INFRA-ERROR cannot create scratch"; exit 2; }
trap 'rm -rf "$SCR"' EXIT
export TMPDIR="$SCR/tmp" VERIF_SCRATCH="$SCR"
cd "$HERE/mc" || exit 2
if [ "$REPO" != "/repo" ]; then
  # alternate tree (used only for seeded-change experiments): a private copy of go.mod with the replace redirected
  sed "s#=> /repo#=> $REPO#" go.mod > "$SCR/go.mod"; cp go.sum "$SCR/go.sum"; MODFLAG="-modfile=$SCR/go.mod"
else
  MODFLAG=""
fi
cp "$REPO/go.sum" "$HERE/mc/go.sum" 2>/dev/null
$GO run $MODFLAG ./cmd/mkoverlay -repo "$REPO" -hooks "$HERE/mc/hook/_src" -out "$SCR/ov" >"$SCR/mkoverlay.log" 2>&1 || { cat "$SCR/mkoverlay.log"; echo "INFRA-ERROR overlay generation failed"; exit 2; }
if ! $GO build $MODFLAG -overlay "$SCR/ov/overlay.json" -o "$SCR/vmc" ./cmd/vmc >"$SCR/build.log" 2>&1; then
  cat "$SCR/build.log"; echo "INFRA-ERROR build of vmc against $REPO failed"; exit 2
fi
export VERIF_VMC="$SCR/vmc"
if [ "$ID" = "C17" ]; then
  # racepass: the same harness bodies, free-running, under the race detector (auxiliary to the exhaustive exploration)
  if $GO build $MODFLAG -race -overlay "$SCR/ov/overlay.json" -o "$SCR/vmc-race" ./cmd/vmc >"$SCR/build-race.log" 2>&1; then
    export VERIF_VMC_RACE="$SCR/vmc-race"
  else
    cat "$SCR/build-race.log"; echo "INFRA-ERROR -race build of vmc failed"; exit 2
  fi
fi
"$SCR/vmc" "$ID" "$TIER"
